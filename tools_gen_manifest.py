#!/usr/bin/env python3
"""Writes MANIFEST.json (kept as a script so that the long texts stay editable)."""
import json, subprocess, os
ROOT = os.path.dirname(os.path.abspath(__file__))
hooks_commits = subprocess.run(['git','-C','/repo','log','--format=%H %s'],capture_output=True,text=True).stdout.splitlines()
hook_shas = [l.split()[0] for l in hooks_commits if ' verif hooks' in l or l.split(' ',1)[1].startswith('verif hook')]
def chk(pid, engine, text, note, technique, ref):
    return {
        "property_id": pid,
        "quick_cmd": "./check %s quick" % pid,
        "thorough_cmd": "./check %s thorough" % pid,
        "evidence_file": "evidence/%s.json" % pid,
        "replay_cmd_template": "./check replay {path}",
        "engine": engine,
        "level_claimed": {"category": "exploration", "text": text, "design_ref": ref},
        "level_note": note,
        "technique": technique,
    }
NA = {
 "C03": "pure function of (seed, message): which rejection-loop exit is taken is decided by data, not by a schedule, fault, crash point or history; nothing for a simulator to own",
 "C04": "XMSS Verify is a pure predicate on (message, signature, public key) bytes; deciding it needs an independent spec-level verifier and input mutation, not simulation",
 "C05": "Dilithium Verify/Open strictness is a pure predicate on bytes; the discriminating inputs come from a deviating signer, not from a fault or interleaving",
 "C06": "equality with the full-Merkle-tree reference is a pure function of (seed, h, hash, index, message); its only history-shaped aspect (independence of how the index was reached) is C08 and is decided there",
 "C07": "byte equality with a specification-level Dilithium is a pure function of (seed, message); its call-order clause is observed under C15 but a check deciding only that clause cannot show C07",
 "C10": "mnemonic codec bijection/strictness: pure codec over a fixed 4096-word table, no schedule, clock, fault or history",
 "C11": "address/descriptor derivation and validation: pure functions of key or address bytes",
 "C12": "ring arithmetic exactness: pure integer functions",
 "C13": "packing/unpacking losslessness and canonicity: pure codecs",
 "C14": "no crash on untrusted bytes: totality of pure functions over byte strings; a transport that truncates or flips bytes adds nothing to mutating the argument",
 "C16": "JS string wrappers are pure string-to-bytes adapters and the object constructors need a JavaScript runtime (js.Global) that cannot run natively here",
}
def manifest(with_c15):
    checks = [
     chk("C01","keysim","Seeded exploration of XMSS key histories (Sign / forward SetIndex / refused calls / crash-rebuild) with every emitted signature checked by the library's own Verify (real leaves) or validateAuthPath against the root (stub leaves behind the leaf seam). Complete over the index space for the heights listed in evidence.exhaustive_subspaces; sampled elsewhere. Exploration is the right level: the property quantifies over histories, and the traversal control flow depends only on (height, index history).",
         "Trusted: the library's own Verify/validateAuthPath as oracle (a consistent change of hash constructions is C06's business, not C01's); the verif-tagged hooks; stub-leaf episodes rely on control flow being independent of hash values, as the property states. Heights above 18 (stub) / 10 (real) are not executed.",
         "deterministic key-lifecycle simulation, seeded op histories, whole-life enumeration, delta-debugged replay","DESIGN.md 2.2, 3 (C01)"),
     chk("C02","keysim","Refinement of the real XMSS object against the counter automaton of the property text, checked after every operation of seeded histories rich in refused calls (rewind, too high, exhausted) that the harness recovers from and keeps going; refused calls must leave GetIndex, all identity getters and - via a mirror twin that never saw the refused call - all later signatures unchanged; a call that blocks forever is detected deterministically (Go runtime deadlock report in the single-goroutine worker).",
         "Trusted: recover() sees every refusal (panic or error return both count as refused; a silent no-op that leaves the index unchanged too). j ranges over the uint32 domain by boundary values plus random. Heights 4..16.",
         "deterministic simulation, model refinement per op, fault = refused operation, twin comparison","DESIGN.md 2.2, 3 (C02)"),
     chk("C08","keysim","Crash/rebuild simulation: the live object is dropped at arbitrary op boundaries and rebuilt from each exported secret form and restore plan (one jump, several jumps, dummy signatures, mixed), next to a never-crashed twin that reaches the same indices by a different path (mirror / unit steps / signing); all later signatures and authentication paths must be byte-identical through the rest of the key's life. Every crash index x form x plan kind is covered for the small heights listed in evidence.",
         "Trusted: hooks (snapshot/clone). Snapshot differences alone are never reported; only observable divergence (signature / authentication-path bytes) is. Mid-call crashes reduce to op-boundary crashes because the object has no durable form.",
         "deterministic simulation with crash-restart fault injection, twin (reference object) equality","DESIGN.md 2.2, 3 (C08)"),
     chk("C09","keysim","Create -> observe -> export -> crash -> restore simulation for XMSS (seed, extended seed, hex seed, mnemonic) and Dilithium (seed, hex seed, mnemonic) wallets, with the entropy source behind the crypto/rand.Reader seam delivering short reads, transient empty reads, EOF-with-last-bytes and errors after k bytes (k swept over 0..47). Observations recorded before the crash (PK, addresses, signatures) must equal those of the key rebuilt from every exported secret.",
         "Trusted: go1.23.5 crypto/rand.Read = io.ReadFull(Reader) (from Go 1.24 an entropy error is fatal and unobservable). The (seed,height,hash) dimension is seeded sampling of a round trip; heights 4..16 quick / ..20 thorough (stub leaves above 8/10).",
         "deterministic simulation, crash-restart from durable secret, entropy fault injection behind rand.Reader","DESIGN.md 2.2, 3 (C09)"),
    ]
    if with_c15:
        checks.append(chk("C15","consim","Deterministic caller-goroutine simulation: the library source is instrumented (in a scratch copy, regenerated on every run) with a yield point before every statement; a seeded plan decides at which yield which goroutine runs, so one seed is one exactly repeatable interleaving. Oracles: every call's result equals its sequential baseline and (cold-start episodes, sampled warm episodes) the same call run truly alone in a fresh process; caller-owned shared inputs and returned strings/slices stay bit-identical; and (in the -race build) no race report - the hand-off between tasks is invisible to the race detector, so it still sees tasks as concurrent. Goroutines, WaitGroups, channels and select inside the library are rewritten into scheduler tasks and yield-aware primitives.",
         "Trusted: pre-emption granularity is one source statement of the library packages; memory-model effects beyond SC interleavings are left to the race detector; sync.Cond inside the library is unsupported (exit 2).",
         "deterministic scheduling of instrumented source, seeded PCT-style schedule search, sequential-baseline oracle, race detector","DESIGN.md 2.3, 3 (C15)"))
    na = [{"property_id": k, "reason": v} for k, v in NA.items()]
    if not with_c15:
        na.append({"property_id": "C15", "reason": "check under construction in this revision (consim); will be claimed once it runs end to end"})
    return {
     "version": 1,
     "setup_cmd": "./setup.sh",
     "hooks": {"guard": "verif", "enable": "go build -tags 'verif verifauth verifwots' (the harness module replaces github.com/theQRL/go-qrllib by /repo; verifauth and verifwots are optional deep hooks that ./check leaves out if they do not build against the tree)",
               "baseline_off_cmd": "cd /repo && GOFLAGS=-mod=mod go test -json -vet=off -count=1 -timeout 25m ./...",
               "source_commits": hook_shas, "add_only": True},
     "engines": [
       {"name": "keysim", "path": "keysim/", "serves_properties": ["C01","C02","C08","C09"], "kind_free_text": "single-threaded discrete-step key-lifecycle simulator: real key objects, wallet/durable-record model, never-crashed twin, counter automaton, simulated entropy source; seeded op histories with refused calls and crash/rebuild faults"},
       {"name": "consim", "path": "consim/", "serves_properties": ["C15"], "kind_free_text": "deterministic scheduler over source-instrumented library code: real goroutines released one at a time at statement-level yield points according to a seeded plan"},
     ],
     "checks": checks,
     "not_applicable": na,
     "notes": "Technique family: deterministic simulation with fault injection. See DESIGN.md. Exit 2 (never VIOLATION) on build failure, watchdog or harness fault.",
    }
import sys
json.dump(manifest('--with-c15' in sys.argv), open(os.path.join(ROOT,'MANIFEST.json'),'w'), indent=1)
print("ok")
