#!/bin/bash
# Sensitivity / no-false-alarm self-test of the machinery (not a registered check).
#   selftest/run_mutants.sh [-t tier] [-p "C01 C02"] [diff ...]
# For each diff: scratch copy of /repo (outside /repo and /verif), apply, confirm it
# builds and passes the repository's tests with the guard off, run the checks for
# the properties named in its "# expect:" line (all keysim checks for ok-*), print
# one line per (mutant, property) and remove the scratch copy. Evidence, binaries
# and replays of these runs go to the scratch copy, never to /verif/evidence.
set -u
ROOT="$(cd "$(dirname "${BASH_SOURCE[0]}")/.." && pwd)"
export GOFLAGS=-mod=mod GOPROXY=off GOSUMDB=off GOTOOLCHAIN=local GOWORK=off
tier=quick
props=""
while getopts "t:p:" o; do
	case $o in
	t) tier=$OPTARG ;;
	p) props=$OPTARG ;;
	esac
done
shift $((OPTIND - 1))
[ $# -eq 0 ] && set -- "$ROOT"/selftest/mutants/*.diff
for d in "$@"; do
	d=$(readlink -f "$d")
	name=$(basename "$d" .diff)
	S=$(mktemp -d /tmp/verif-mut-XXXXXX)
	rsync -a --exclude .git /repo/ "$S/repo/"
	if ! (cd "$S/repo" && grep -v '^# expect' "$d" | patch -s -p1); then
		echo "$name: PATCH-FAILED"
		rm -rf "$S"
		continue
	fi
	t=pass
	(cd "$S/repo" && go build ./... && go test -count=1 ./... >/dev/null 2>&1) || t=FAILS-REPO-TESTS
	exp=$(sed -n 's/^# expect: *//p' "$d")
	run=${props:-${exp:-C01 C02 C08 C09 C15}}
	for p in $run; do
		out=$(VERIF_REPO="$S/repo" VERIF_BIN="$S/bin" VERIF_EVIDENCE_DIR="$S/ev" VERIF_REPLAY_DIR="$S/replays" "$ROOT/check" "$p" "$tier" 2>"$S/err.$p")
		rc=$?
		v=$(echo "$out" | grep -c '^VIOLATION')
		first=$(echo "$out" | grep '^violation:' | head -1 | cut -c1-150)
		# every reported replay must reproduce in a fresh process
		rp=ok
		for f in $(echo "$out" | sed -n 's/^VIOLATION .*replay=//p'); do
			VERIF_REPO="$S/repo" VERIF_BIN="$S/bin" "$ROOT/check" replay "$f" >/dev/null 2>&1
			[ $? -eq 1 ] || rp=REPLAY-DID-NOT-REPRODUCE
		done
		[ "$v" -eq 0 ] && rp=-
		echo "$name: repo-tests=$t expect=[$exp] $p exit=$rc violations=$v replay=$rp $first"
		[ $rc -eq 2 ] && tail -3 "$S/err.$p" | sed 's/^/    /'
	done
	rm -rf "$S"
done
