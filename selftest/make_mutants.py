#!/usr/bin/env python3
"""Generates the machinery's own sensitivity set: small property-breaking edits
(and behaviour-preserving ones, prefix 'ok-') as unified diffs against /repo.
Each entry: (name, expected properties, file, old, new). Run once; diffs are
committed under selftest/mutants/."""
import subprocess, os, sys, tempfile, shutil
REPO = '/repo'
OUT = os.path.join(os.path.dirname(os.path.abspath(__file__)), 'mutants')
M = [
 # --- C01 traversal
 ('c01-tiebreak', 'C01', 'xmss/xmss_fast.go', 'if low < lMin {', 'if low <= lMin {'),
 ('c01-treehash-start', 'C01', 'xmss/xmss_fast.go', 'startIdx := leafIdx + 1 + 3*(1<<i)', 'startIdx := leafIdx + 1 + 2*(1<<i)'),
 ('c01-keep-cond', 'C01', 'xmss/xmss_fast.go', '&& (tau < h-1) {', '&& (tau < h-2) {'),
 ('c01-updates-minus1', 'C01', 'xmss/xmss.go', 'bdsTreeHashUpdate(hashFunction, bdsState, (params.h-params.k)>>1, skSeed', 'bdsTreeHashUpdate(hashFunction, bdsState, ((params.h-params.k)>>1)-1, skSeed'),
 ('c01-last-guard', 'C01', 'xmss/xmss.go', 'if idx < (uint32(1)<<params.h)-1 {', 'if idx <= (uint32(1)<<params.h)-1 {'),
 ('c01-bdsround-idx1', 'C01', 'xmss/xmss.go', 'bdsRound(hashFunction, bdsState, idx, skSeed, params, pubSeed, &otsAddr)', 'bdsRound(hashFunction, bdsState, idx+1, skSeed, params, pubSeed, &otsAddr)'),
 ('c01-startidx-bound', 'C01', 'xmss/xmss_fast.go', 'if startIdx < (1 << h) {', 'if startIdx < (1<<h)-(1<<i) {'),
 ('c01-auth-copy-short', 'C01', 'xmss/xmss.go', 'copy(sigMsg[sigMsgLen:sigMsgLen+params.h*params.n], bdsState.auth[:params.h*params.n])', 'copy(sigMsg[sigMsgLen:sigMsgLen+params.h*params.n], bdsState.auth[:params.h*params.n-1])'),
 # --- C02 index discipline
 ('c02-no-increment-after-last-8', 'C02', 'xmss/xmss.go', 'sk[3] = uint8((idx + 1) & 0xff)\n', 'sk[3] = uint8((idx + 1) & 0xff)\n\tif idx&7 == 5 && len(message) == 33 {\n\t\tsk[3] = uint8(idx & 0xff)\n\t}\n'),
 ('c02-too-high-gt', 'C02', 'xmss/xmss_fast.go', 'if newIdx >= numElems {', 'if newIdx > numElems {'),
 ('c02-no-rewind-check', 'C02', 'xmss/xmss_fast.go', '\tif newIdx < currentIdx {\n\t\tpanic("cannot rewind")\n\t}\n', '\tif newIdx+1 < currentIdx {\n\t\tpanic("cannot rewind")\n\t}\n'),
 ('c02-sign-skips-guard', 'C02', 'xmss/xmss.go', '\tindex := x.GetIndex()\n\tx.SetIndex(index)\n', '\tindex := x.GetIndex()\n\tif index < uint32(1)<<x.height {\n\t\tx.SetIndex(index)\n\t}\n'),
 ('c02-index-written-before-guard', 'C02', 'xmss/xmss_fast.go', '\tif newIdx >= numElems {\n\t\tpanic("index too high")\n\t}\n', '\tif newIdx >= numElems {\n\t\tsk[3] = uint8(newIdx & 0xff)\n\t\tpanic("index too high")\n\t}\n'),
 ('c02-rewind-mutates-state', 'C02', 'xmss/xmss_fast.go', '\tif newIdx < currentIdx {\n\t\tpanic("cannot rewind")\n\t}\n', '\tif newIdx < currentIdx {\n\t\tbdsState.keep[0] ^= 1\n\t\tpanic("cannot rewind")\n\t}\n'),
 # --- C08 restart equivalence
 ('c08-ff-skips-update-every-8', 'C08', 'xmss/xmss_fast.go', '\t\tbdsTreeHashUpdate(hashFunction, bdsState, (params.h-params.k)>>1, skSeed, params, pubSeed, &otsAddr)\n\t}\n\n\tsk[0] = uint8(newIdx >> 24 & 0xff)', '\t\tif j&7 != 7 {\n\t\t\tbdsTreeHashUpdate(hashFunction, bdsState, (params.h-params.k)>>1, skSeed, params, pubSeed, &otsAddr)\n\t\t}\n\t}\n\n\tsk[0] = uint8(newIdx >> 24 & 0xff)'),
 ('c08-ff-start-plus1', 'C08', 'xmss/xmss_fast.go', 'for j := currentIdx; j < newIdx; j++ {', 'for j := currentIdx + 1; j < newIdx; j++ {'),
 ('ok-ff-extra-update', '', 'xmss/xmss_fast.go', '\t\tbdsTreeHashUpdate(hashFunction, bdsState, (params.h-params.k)>>1, skSeed, params, pubSeed, &otsAddr)\n\t}\n\n\tsk[0] = uint8(newIdx >> 24 & 0xff)', '\t\tbdsTreeHashUpdate(hashFunction, bdsState, ((params.h-params.k)>>1)+1, skSeed, params, pubSeed, &otsAddr)\n\t}\n\n\tsk[0] = uint8(newIdx >> 24 & 0xff)'),
 ('c08-extseed-drops-last-byte', 'C08 C09', 'xmss/xmss.go', 'copy(seed[:], extendedSeed[common.DescriptorSize:])', 'copy(seed[:], extendedSeed[common.DescriptorSize:common.ExtendedSeedSize-1])'),
 # --- C09 recovery
 ('c09-new-stores-hashed-seed', 'C09', 'dilithium/dilithium.go', '\tif _, err := cryptoSignKeypair(hashedSeed[:], &pk, &sk); err != nil {\n\t\treturn nil, err\n\t}\n\n\treturn &Dilithium{pk, sk, seed, false}, nil\n}\n\nfunc NewDilithiumFromSeed', '\tif _, err := cryptoSignKeypair(hashedSeed[:], &pk, &sk); err != nil {\n\t\treturn nil, err\n\t}\n\tcopy(seed[:32], hashedSeed[:])\n\n\treturn &Dilithium{pk, sk, seed, false}, nil\n}\n\nfunc NewDilithiumFromSeed'),
 ('c09-desc-height-mask', 'C09', 'xmss/descriptor.go', '\treturn &QRLDescriptor{\n\t\thashFunction:   HashFunction(descriptorBytes[0] & 0x0f),\n\t\tsignatureType:  common.SignatureType((descriptorBytes[0] >> 4) & 0x0F),\n\t\theight:         (descriptorBytes[1] & 0x0f) << 1,\n\t\taddrFormatType: common.AddrFormatType((descriptorBytes[1] & 0xF0) >> 4),\n\t}\n}\n\nfunc LegacyQRL', '\treturn &QRLDescriptor{\n\t\thashFunction:   HashFunction(descriptorBytes[0] & 0x0f),\n\t\tsignatureType:  common.SignatureType((descriptorBytes[0] >> 4) & 0x0F),\n\t\theight:         (descriptorBytes[1] & 0x07) << 1,\n\t\taddrFormatType: common.AddrFormatType((descriptorBytes[1] & 0xF0) >> 4),\n\t}\n}\n\nfunc LegacyQRL'),
 ('c09-getbytes-drops-hash', 'C09', 'xmss/descriptor.go', "output[0] = (uint8(d.signatureType) << 4) | (uint8(d.hashFunction) & 0x0F)", "output[0] = (uint8(d.signatureType) << 4) | (uint8(d.hashFunction) & 0x01)"),
 ('c09-fromheight-seed-not-stored', 'C09', 'xmss/xmss.go', '\treturn NewXMSSFromSeed(seed, height, hashFunction, common.SHA256_2X)\n}', '\tx := NewXMSSFromSeed(seed, height, hashFunction, common.SHA256_2X)\n\tx.seed[47] = 0\n\treturn x\n}'),
 ('c09-hexseed-uppercase-odd', 'C09', 'dilithium/dilithium.go', 'return "0x" + hex.EncodeToString(seed[:])', 'return "0x" + hex.EncodeToString(seed[:47])'),
 # --- behaviour-preserving edits: every check must stay silent
 ('ok-panic-texts', '', 'xmss/xmss_fast.go', 'panic("cannot rewind")', 'panic("rewinding the OTS index is not allowed")'),
 ('ok-sign-error-at-exhaustion', '', 'xmss/xmss.go', '\tindex := x.GetIndex()\n\tx.SetIndex(index)\n', '\tindex := x.GetIndex()\n\tif index >= uint32(1)<<x.height {\n\t\treturn nil, errors.New("all one-time keys used")\n\t}\n\tx.SetIndex(index)\n'),
 ('ok-dead-stack-write', '', 'xmss/xmss_fast.go', '\t\ttreeHash.completed = 1\n\t} else {', '\t\ttreeHash.completed = 1\n\t\tcopy(bdsState.stack[bdsState.stackOffset*n:], nodeBuffer[:n])\n\t} else {'),
]
def main():
    os.makedirs(OUT, exist_ok=True)
    for name, props, f, old, new in M:
        src = open(os.path.join(REPO, f)).read()
        if src.count(old) != 1:
            print('SKIP %s: pattern occurs %d times' % (name, src.count(old))); continue
        d = tempfile.mkdtemp()
        a = os.path.join(d, 'a'); b = os.path.join(d, 'b')
        os.makedirs(os.path.join(a, os.path.dirname(f))); os.makedirs(os.path.join(b, os.path.dirname(f)))
        open(os.path.join(a, f), 'w').write(src)
        open(os.path.join(b, f), 'w').write(src.replace(old, new))
        p = subprocess.run(['diff', '-u', 'a/' + f, 'b/' + f], cwd=d, capture_output=True, text=True)
        open(os.path.join(OUT, name + '.diff'), 'w').write('# expect: %s\n' % props + p.stdout)
        shutil.rmtree(d)
        print('wrote', name)
main()

# ---- C15 mutants (appended)
M2 = [
 ('c15-lazy-map-inplace', 'C15', 'misc/helper.go',
  '\twordLookup := make(map[string]int)\n\n\tfor i, word := range qrl.WordList {\n\t\twordLookup[word] = i\n\t}\n',
  '\tif len(wordLookup) < len(qrl.WordList) {\n\t\tfor i, word := range qrl.WordList {\n\t\t\twordLookup[word] = i\n\t\t}\n\t}\n',
  '\nvar wordLookup = make(map[string]int)\n'),
 ('c15-lazy-map-published', 'C15', 'misc/helper.go',
  '\twordLookup := make(map[string]int)\n\n\tfor i, word := range qrl.WordList {\n\t\twordLookup[word] = i\n\t}\n',
  '\twordLookup := cachedLookup\n\tif wordLookup == nil {\n\t\twordLookup = make(map[string]int)\n\t\tfor i, word := range qrl.WordList {\n\t\t\twordLookup[word] = i\n\t\t}\n\t\tcachedLookup = wordLookup\n\t}\n',
  '\nvar cachedLookup map[string]int\n'),
 ('c15-corehash-scratch', 'C15', 'xmss/hash.go',
  '\tbuf := make([]uint8, inLen+n+keyLen)\n\tmisc.ToByteLittleEndian(buf, typeValue, n)',
  '\tif uint32(cap(hashScratch)) < inLen+n+keyLen {\n\t\thashScratch = make([]uint8, inLen+n+keyLen)\n\t}\n\tbuf := hashScratch[:inLen+n+keyLen]\n\tmisc.ToByteLittleEndian(buf, typeValue, n)',
  '\nvar hashScratch []uint8\n'),
 ('c15-verify-patches-sig', 'C15', 'xmss/xmss.go',
  '\ttmp := signature\n\n\treturn xmssVerifySig(hashFunction,\n\t\tparams.wotsParams,\n\t\tmessage,\n\t\ttmp,\n\t\textendedPK[common.DescriptorSize:],\n\t\theight)\n',
  '\ttmp := signature\n\tsaved := tmp[0]\n\ttmp[0] &= 0x7f\n\tdefer func() { tmp[0] = saved }()\n\n\treturn xmssVerifySig(hashFunction,\n\t\tparams.wotsParams,\n\t\tmessage,\n\t\ttmp,\n\t\textendedPK[common.DescriptorSize:],\n\t\theight)\n',
  ''),
 ('c15-dil-sign-counter', 'C15', 'dilithium/dilithium.go',
  '\treturn cryptoSign(message, &d.sk, d.randomizedSigning)\n}\n\n// Sign the message',
  '\tsealCalls++\n\treturn cryptoSign(message, &d.sk, d.randomizedSigning)\n}\n\n// Sign the message',
  '\nvar sealCalls uint64\n'),
 ('c15-matrix-cache', 'C15', 'dilithium/polyvec.go',
  'func polyVecMatrixExpand(mat *[K]polyVecL, rho *[SeedBytes]uint8) error {\n',
  'func polyVecMatrixExpand(mat *[K]polyVecL, rho *[SeedBytes]uint8) error {\n\tif matCacheValid && matCacheRho == *rho {\n\t\t*mat = matCache\n\t\treturn nil\n\t}\n\tdefer func() {\n\t\tmatCacheValid = false\n\t\tmatCacheRho = *rho\n\t\tmatCache = *mat\n\t\tmatCacheValid = true\n\t}()\n',
  '\nvar (\n\tmatCache      [K]polyVecL\n\tmatCacheRho   [SeedBytes]uint8\n\tmatCacheValid bool\n)\n'),
 ('ok-once-cache', '', 'misc/helper.go',
  '\twordLookup := make(map[string]int)\n\n\tfor i, word := range qrl.WordList {\n\t\twordLookup[word] = i\n\t}\n',
  '\tlookupOnce.Do(func() {\n\t\tcachedLookup = make(map[string]int)\n\t\tfor i, word := range qrl.WordList {\n\t\t\tcachedLookup[word] = i\n\t\t}\n\t})\n\twordLookup := cachedLookup\n',
  '\nvar (\n\tlookupOnce   sync.Once\n\tcachedLookup map[string]int\n)\n', '"strings"\n', '"strings"\n\t"sync"\n'),
 ('ok-mutex-cache', '', 'misc/helper.go',
  '\twordLookup := make(map[string]int)\n\n\tfor i, word := range qrl.WordList {\n\t\twordLookup[word] = i\n\t}\n',
  '\tlookupMu.Lock()\n\tif cachedLookup == nil {\n\t\tcachedLookup = make(map[string]int)\n\t\tfor i, word := range qrl.WordList {\n\t\t\tcachedLookup[word] = i\n\t\t}\n\t}\n\twordLookup := cachedLookup\n\tlookupMu.Unlock()\n',
  '\nvar (\n\tlookupMu     sync.Mutex\n\tcachedLookup map[string]int\n)\n', '"strings"\n', '"strings"\n\t"sync"\n'),
 ('ok-init-cache', '', 'misc/helper.go',
  '\twordLookup := make(map[string]int)\n\n\tfor i, word := range qrl.WordList {\n\t\twordLookup[word] = i\n\t}\n',
  '\twordLookup := cachedLookup\n',
  '\nvar cachedLookup = func() map[string]int {\n\tm := make(map[string]int)\n\tfor i, word := range qrl.WordList {\n\t\tm[word] = i\n\t}\n\treturn m\n}()\n'),
]
def main2():
    for ent in M2:
        name, props, f, old, new, tail = ent[:6]
        src = open(os.path.join(REPO, f)).read()
        if src.count(old) != 1:
            print('SKIP %s: pattern occurs %d times' % (name, src.count(old))); continue
        dst = src.replace(old, new) + tail
        if len(ent) > 6:
            assert dst.count(ent[6]) == 1, name
            dst = dst.replace(ent[6], ent[7])
        d = tempfile.mkdtemp()
        a = os.path.join(d, 'a'); b = os.path.join(d, 'b')
        os.makedirs(os.path.join(a, os.path.dirname(f))); os.makedirs(os.path.join(b, os.path.dirname(f)))
        open(os.path.join(a, f), 'w').write(src)
        open(os.path.join(b, f), 'w').write(dst)
        p = subprocess.run(['diff', '-u', 'a/' + f, 'b/' + f], cwd=d, capture_output=True, text=True)
        open(os.path.join(OUT, name + '.diff'), 'w').write('# expect: %s\n' % props + p.stdout)
        shutil.rmtree(d)
        print('wrote', name)
main2()

# ---- cold-start only: race-free (every access under the mutex) but other goroutines can observe the half-built table
M2[:] = [
 ('c15-cold-partial-cache-locked', 'C15', 'misc/helper.go',
  '\twordLookup := make(map[string]int)\n\n\tfor i, word := range qrl.WordList {\n\t\twordLookup[word] = i\n\t}\n',
  '\tlookupMu.Lock()\n\tbuild := cachedLookup == nil\n\tif build {\n\t\tcachedLookup = make(map[string]int)\n\t}\n\tlookupMu.Unlock()\n\tif build {\n\t\tfor i, word := range qrl.WordList {\n\t\t\tlookupMu.Lock()\n\t\t\tcachedLookup[word] = i\n\t\t\tlookupMu.Unlock()\n\t\t}\n\t}\n\twordLookup := make(map[string]int)\n\tlookupMu.Lock()\n\tfor _, w := range mnemonicWords {\n\t\tif v, ok := cachedLookup[w]; ok {\n\t\t\twordLookup[w] = v\n\t\t}\n\t}\n\tlookupMu.Unlock()\n',
  '\nvar (\n\tlookupMu     sync.Mutex\n\tcachedLookup map[string]int\n)\n', '"strings"\n', '"strings"\n\t"sync"\n'),
]
main2()

# ---- library-internal goroutines
M2[:] = [
 ('ok-parallel-matrix-expand', '', 'dilithium/polyvec.go',
  '\tfor i := 0; i < K; i++ {\n\t\tfor j := 0; j < L; j++ {\n\t\t\tif err := polyUniform(&mat[i].vec[j], rho, (uint16(i)<<8)+uint16(j)); err != nil {\n\t\t\t\treturn err\n\t\t\t}\n\t\t}\n\t}\n\treturn nil\n}\n\nfunc polyVecLChkNorm',
  '\tvar wg sync.WaitGroup\n\tvar errs [K]error\n\tfor i := 0; i < K; i++ {\n\t\twg.Add(1)\n\t\tgo func(i int) {\n\t\t\tdefer wg.Done()\n\t\t\tfor j := 0; j < L; j++ {\n\t\t\t\tif err := polyUniform(&mat[i].vec[j], rho, (uint16(i)<<8)+uint16(j)); err != nil {\n\t\t\t\t\terrs[i] = err\n\t\t\t\t\treturn\n\t\t\t\t}\n\t\t\t}\n\t\t}(i)\n\t}\n\twg.Wait()\n\tfor _, err := range errs {\n\t\tif err != nil {\n\t\t\treturn err\n\t\t}\n\t}\n\treturn nil\n}\n\nfunc polyVecLChkNorm',
  '', 'package dilithium\n', 'package dilithium\n\nimport "sync"\n'),
 ('c15-parallel-matrix-expand-loopvar', 'C15', 'dilithium/polyvec.go',
  '\tfor i := 0; i < K; i++ {\n\t\tfor j := 0; j < L; j++ {\n\t\t\tif err := polyUniform(&mat[i].vec[j], rho, (uint16(i)<<8)+uint16(j)); err != nil {\n\t\t\t\treturn err\n\t\t\t}\n\t\t}\n\t}\n\treturn nil\n}\n\nfunc polyVecLChkNorm',
  '\tvar wg sync.WaitGroup\n\tvar firstErr error\n\tfor i := 0; i < K; i += 2 {\n\t\tif i+2 < K { // the last pair is cheap enough not to wait for\n\t\t\twg.Add(1)\n\t\t}\n\t\tgo func(lo int) {\n\t\t\tif lo+2 < K {\n\t\t\t\tdefer wg.Done()\n\t\t\t}\n\t\t\tfor r := lo; r < lo+2; r++ {\n\t\t\t\tfor j := 0; j < L; j++ {\n\t\t\t\t\tif err := polyUniform(&mat[r].vec[j], rho, (uint16(r)<<8)+uint16(j)); err != nil {\n\t\t\t\t\t\tfirstErr = err\n\t\t\t\t\t}\n\t\t\t\t}\n\t\t\t}\n\t\t}(i)\n\t}\n\twg.Wait()\n\treturn firstErr\n}\n\nfunc polyVecLChkNorm',
  '', 'package dilithium\n', 'package dilithium\n\nimport "sync"\n'),
]
main2()

# ---- channels
M2[:] = [
 ('ok-parallel-matrix-expand-chan', '', 'dilithium/polyvec.go',
  '\tfor i := 0; i < K; i++ {\n\t\tfor j := 0; j < L; j++ {\n\t\t\tif err := polyUniform(&mat[i].vec[j], rho, (uint16(i)<<8)+uint16(j)); err != nil {\n\t\t\t\treturn err\n\t\t\t}\n\t\t}\n\t}\n\treturn nil\n}\n\nfunc polyVecLChkNorm',
  '\trows := make(chan int, K)\n\terrs := make(chan error)\n\tfor w := 0; w < 3; w++ {\n\t\tgo func() {\n\t\t\tvar first error\n\t\t\tfor i := range rows {\n\t\t\t\tfor j := 0; j < L; j++ {\n\t\t\t\t\tif err := polyUniform(&mat[i].vec[j], rho, (uint16(i)<<8)+uint16(j)); err != nil && first == nil {\n\t\t\t\t\t\tfirst = err\n\t\t\t\t\t}\n\t\t\t\t}\n\t\t\t}\n\t\t\terrs <- first\n\t\t}()\n\t}\n\tfor i := 0; i < K; i++ {\n\t\trows <- i\n\t}\n\tclose(rows)\n\tvar first error\n\tfor w := 0; w < 3; w++ {\n\t\tif err, ok := <-errs; ok && err != nil && first == nil {\n\t\t\tfirst = err\n\t\t}\n\t}\n\treturn first\n}\n\nfunc polyVecLChkNorm',
  ''),
 ('c15-parallel-matrix-expand-chan-early', 'C15', 'dilithium/polyvec.go',
  '\tfor i := 0; i < K; i++ {\n\t\tfor j := 0; j < L; j++ {\n\t\t\tif err := polyUniform(&mat[i].vec[j], rho, (uint16(i)<<8)+uint16(j)); err != nil {\n\t\t\t\treturn err\n\t\t\t}\n\t\t}\n\t}\n\treturn nil\n}\n\nfunc polyVecLChkNorm',
  '\trows := make(chan int, K)\n\terrs := make(chan error, 3)\n\tfor w := 0; w < 3; w++ {\n\t\tgo func() {\n\t\t\tvar first error\n\t\t\tfor i := range rows {\n\t\t\t\tfor j := 0; j < L; j++ {\n\t\t\t\t\tif err := polyUniform(&mat[i].vec[j], rho, (uint16(i)<<8)+uint16(j)); err != nil && first == nil {\n\t\t\t\t\t\tfirst = err\n\t\t\t\t\t}\n\t\t\t\t}\n\t\t\t}\n\t\t\terrs <- first\n\t\t}()\n\t}\n\tfor i := 0; i < K; i++ {\n\t\trows <- i\n\t}\n\tclose(rows)\n\t// two of the three workers reporting back is enough to know about errors\n\tfor w := 0; w < 2; w++ {\n\t\tif err := <-errs; err != nil {\n\t\t\treturn err\n\t\t}\n\t}\n\treturn nil\n}\n\nfunc polyVecLChkNorm',
  ''),
]
main2()
