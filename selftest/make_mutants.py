#!/usr/bin/env python3
"""Generates the machinery's own sensitivity set: small property-breaking edits
(and behaviour-preserving ones, prefix 'ok-') as unified diffs against /repo.
Each entry: (name, expected properties, file, old, new). Run once; diffs are
committed under selftest/mutants/."""
import subprocess, os, sys, tempfile, shutil
REPO = '/repo'
OUT = os.path.join(os.path.dirname(os.path.abspath(__file__)), 'mutants')
M = [
 # --- C01 traversal
 ('c01-tiebreak', 'C01', 'xmss/xmss_fast.go', 'if low < lMin {', 'if low <= lMin {'),
 ('c01-treehash-start', 'C01', 'xmss/xmss_fast.go', 'startIdx := leafIdx + 1 + 3*(1<<i)', 'startIdx := leafIdx + 1 + 2*(1<<i)'),
 ('c01-keep-cond', 'C01', 'xmss/xmss_fast.go', '&& (tau < h-1) {', '&& (tau < h-2) {'),
 ('c01-updates-minus1', 'C01', 'xmss/xmss.go', 'bdsTreeHashUpdate(hashFunction, bdsState, (params.h-params.k)>>1, skSeed', 'bdsTreeHashUpdate(hashFunction, bdsState, ((params.h-params.k)>>1)-1, skSeed'),
 ('c01-last-guard', 'C01', 'xmss/xmss.go', 'if idx < (uint32(1)<<params.h)-1 {', 'if idx <= (uint32(1)<<params.h)-1 {'),
 ('c01-bdsround-idx1', 'C01', 'xmss/xmss.go', 'bdsRound(hashFunction, bdsState, idx, skSeed, params, pubSeed, &otsAddr)', 'bdsRound(hashFunction, bdsState, idx+1, skSeed, params, pubSeed, &otsAddr)'),
 ('c01-retain-row', 'C01', 'xmss/xmss_fast.go', 'rowIdx := ((leafIdx >> i) - 1) >> 1', 'rowIdx := ((leafIdx >> i) - 1) >> 1 & 0'),
 ('c01-startidx-bound', 'C01', 'xmss/xmss_fast.go', 'if startIdx < (1 << h) {', 'if startIdx < (1<<h)-(1<<i) {'),
 ('c01-auth-copy-short', 'C01', 'xmss/xmss.go', 'copy(sigMsg[sigMsgLen:sigMsgLen+params.h*params.n], bdsState.auth[:params.h*params.n])', 'copy(sigMsg[sigMsgLen:sigMsgLen+params.h*params.n], bdsState.auth[:params.h*params.n-1])'),
 # --- C02 index discipline
 ('c02-no-increment-after-last-8', 'C02', 'xmss/xmss.go', 'sk[3] = uint8((idx + 1) & 0xff)\n', 'sk[3] = uint8((idx + 1) & 0xff)\n\tif idx&7 == 5 && len(message) == 33 {\n\t\tsk[3] = uint8(idx & 0xff)\n\t}\n'),
 ('c02-too-high-gt', 'C02', 'xmss/xmss_fast.go', 'if newIdx >= numElems {', 'if newIdx > numElems {'),
 ('c02-no-rewind-check', 'C02', 'xmss/xmss_fast.go', '\tif newIdx < currentIdx {\n\t\tpanic("cannot rewind")\n\t}\n', '\tif newIdx+1 < currentIdx {\n\t\tpanic("cannot rewind")\n\t}\n'),
 ('c02-sign-skips-guard', 'C02', 'xmss/xmss.go', '\tindex := x.GetIndex()\n\tx.SetIndex(index)\n', '\tindex := x.GetIndex()\n\tif index < uint32(1)<<x.height {\n\t\tx.SetIndex(index)\n\t}\n'),
 ('c02-index-written-before-guard', 'C02', 'xmss/xmss_fast.go', '\tif newIdx >= numElems {\n\t\tpanic("index too high")\n\t}\n', '\tif newIdx >= numElems {\n\t\tsk[3] = uint8(newIdx & 0xff)\n\t\tpanic("index too high")\n\t}\n'),
 ('c02-rewind-mutates-state', 'C02', 'xmss/xmss_fast.go', '\tif newIdx < currentIdx {\n\t\tpanic("cannot rewind")\n\t}\n', '\tif newIdx < currentIdx {\n\t\tbdsState.keep[0] ^= 1\n\t\tpanic("cannot rewind")\n\t}\n'),
 # --- C08 restart equivalence
 ('c08-ff-skips-update-every-8', 'C08', 'xmss/xmss_fast.go', '\t\tbdsTreeHashUpdate(hashFunction, bdsState, (params.h-params.k)>>1, skSeed, params, pubSeed, &otsAddr)\n\t}\n\n\tsk[0] = uint8(newIdx >> 24 & 0xff)', '\t\tif j&7 != 7 {\n\t\t\tbdsTreeHashUpdate(hashFunction, bdsState, (params.h-params.k)>>1, skSeed, params, pubSeed, &otsAddr)\n\t\t}\n\t}\n\n\tsk[0] = uint8(newIdx >> 24 & 0xff)'),
 ('c08-ff-start-plus1', 'C08', 'xmss/xmss_fast.go', 'for j := currentIdx; j < newIdx; j++ {', 'for j := currentIdx + 1; j < newIdx; j++ {'),
 ('c08-ff-update-count', 'C08', 'xmss/xmss_fast.go', '\t\tbdsTreeHashUpdate(hashFunction, bdsState, (params.h-params.k)>>1, skSeed, params, pubSeed, &otsAddr)\n\t}\n\n\tsk[0] = uint8(newIdx >> 24 & 0xff)', '\t\tbdsTreeHashUpdate(hashFunction, bdsState, ((params.h-params.k)>>1)+1, skSeed, params, pubSeed, &otsAddr)\n\t}\n\n\tsk[0] = uint8(newIdx >> 24 & 0xff)'),
 ('c08-extseed-drops-last-byte', 'C08 C09', 'xmss/xmss.go', 'copy(seed[:], extendedSeed[common.DescriptorSize:])', 'copy(seed[:], extendedSeed[common.DescriptorSize:common.ExtendedSeedSize-1])'),
 # --- C09 recovery
 ('c09-new-stores-hashed-seed', 'C09', 'dilithium/dilithium.go', '\tif _, err := cryptoSignKeypair(hashedSeed[:], &pk, &sk); err != nil {\n\t\treturn nil, err\n\t}\n\n\treturn &Dilithium{pk, sk, seed, false}, nil\n}\n\nfunc NewDilithiumFromSeed', '\tif _, err := cryptoSignKeypair(hashedSeed[:], &pk, &sk); err != nil {\n\t\treturn nil, err\n\t}\n\tcopy(seed[:32], hashedSeed[:])\n\n\treturn &Dilithium{pk, sk, seed, false}, nil\n}\n\nfunc NewDilithiumFromSeed'),
 ('c09-desc-height-mask', 'C09', 'xmss/descriptor.go', '\treturn &QRLDescriptor{\n\t\thashFunction:   HashFunction(descriptorBytes[0] & 0x0f),\n\t\tsignatureType:  common.SignatureType((descriptorBytes[0] >> 4) & 0x0F),\n\t\theight:         (descriptorBytes[1] & 0x0f) << 1,\n\t\taddrFormatType: common.AddrFormatType((descriptorBytes[1] & 0xF0) >> 4),\n\t}\n}\n\nfunc LegacyQRL', '\treturn &QRLDescriptor{\n\t\thashFunction:   HashFunction(descriptorBytes[0] & 0x0f),\n\t\tsignatureType:  common.SignatureType((descriptorBytes[0] >> 4) & 0x0F),\n\t\theight:         (descriptorBytes[1] & 0x07) << 1,\n\t\taddrFormatType: common.AddrFormatType((descriptorBytes[1] & 0xF0) >> 4),\n\t}\n}\n\nfunc LegacyQRL'),
 ('c09-getbytes-drops-hash', 'C09', 'xmss/descriptor.go', "output[0] = (uint8(d.signatureType) << 4) | (uint8(d.hashFunction) & 0x0F)", "output[0] = (uint8(d.signatureType) << 4) | (uint8(d.hashFunction) & 0x01)"),
 ('c09-fromheight-seed-not-stored', 'C09', 'xmss/xmss.go', '\treturn NewXMSSFromSeed(seed, height, hashFunction, common.SHA256_2X)\n}', '\tx := NewXMSSFromSeed(seed, height, hashFunction, common.SHA256_2X)\n\tx.seed[47] = 0\n\treturn x\n}'),
 ('c09-hexseed-uppercase-odd', 'C09', 'dilithium/dilithium.go', 'return "0x" + hex.EncodeToString(seed[:])', 'return "0x" + hex.EncodeToString(seed[:47])'),
 # --- behaviour-preserving edits: every check must stay silent
 ('ok-panic-texts', '', 'xmss/xmss_fast.go', 'panic("cannot rewind")', 'panic("rewinding the OTS index is not allowed")'),
 ('ok-sign-error-at-exhaustion', '', 'xmss/xmss.go', '\tindex := x.GetIndex()\n\tx.SetIndex(index)\n', '\tindex := x.GetIndex()\n\tif index >= uint32(1)<<x.height {\n\t\treturn nil, errors.New("all one-time keys used")\n\t}\n\tx.SetIndex(index)\n'),
 ('ok-dead-stack-write', '', 'xmss/xmss_fast.go', '\t\ttreeHash.completed = 1\n\t} else {', '\t\ttreeHash.completed = 1\n\t\tcopy(bdsState.stack[bdsState.stackOffset*n:], nodeBuffer[:n])\n\t} else {'),
]
def main():
    os.makedirs(OUT, exist_ok=True)
    for name, props, f, old, new in M:
        src = open(os.path.join(REPO, f)).read()
        if src.count(old) != 1:
            print('SKIP %s: pattern occurs %d times' % (name, src.count(old))); continue
        d = tempfile.mkdtemp()
        a = os.path.join(d, 'a'); b = os.path.join(d, 'b')
        os.makedirs(os.path.join(a, os.path.dirname(f))); os.makedirs(os.path.join(b, os.path.dirname(f)))
        open(os.path.join(a, f), 'w').write(src)
        open(os.path.join(b, f), 'w').write(src.replace(old, new))
        p = subprocess.run(['diff', '-u', 'a/' + f, 'b/' + f], cwd=d, capture_output=True, text=True)
        open(os.path.join(OUT, name + '.diff'), 'w').write('# expect: %s\n' % props + p.stdout)
        shutil.rmtree(d)
        print('wrote', name)
main()
