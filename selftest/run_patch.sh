#!/bin/bash
# Run the checks against an arbitrary patch (no demo): selftest/run_patch.sh [-t tier] [-p "C01 C15"] <patch.diff>
set -u
ROOT="$(cd "$(dirname "${BASH_SOURCE[0]}")/.." && pwd)"
export GOFLAGS=-mod=mod GOPROXY=off GOSUMDB=off GOTOOLCHAIN=local GOWORK=off
tier=quick
props="C01 C02 C08 C09 C15"
while getopts "t:p:" o; do case $o in t) tier=$OPTARG ;; p) props=$OPTARG ;; esac; done
shift $((OPTIND - 1))
P=$(readlink -f "$1")
S=$(mktemp -d /tmp/verif-patch-XXXXXX)
trap 'rm -rf "$S"' EXIT
rsync -a --exclude .git /repo/ "$S/repo/"
(cd "$S/repo" && patch -s -p1 <"$P") || { echo "$1: PATCH DOES NOT APPLY"; exit 2; }
(cd "$S/repo" && go build ./... && go test -count=1 ./... >/dev/null 2>&1) && st=pass || st=FAIL
echo "$1: build+existing-suite=$st"
for p in $props; do
	out=$(VERIF_REPO="$S/repo" VERIF_BIN="$S/bin" VERIF_EVIDENCE_DIR="$S/ev" VERIF_REPLAY_DIR="$S/replays" "$ROOT/check" "$p" "$tier" 2>"$S/err.$p")
	rc=$?
	echo "  $p exit=$rc $(echo "$out" | grep '^violation:' | head -2 | cut -c1-260 | tr '\n' '|')"
	[ $rc -eq 2 ] && tail -4 "$S/err.$p" | sed 's/^/      /'
	[ -n "${KEEP_REPLAYS:-}" ] && [ -d "$S/replays" ] && mkdir -p "$KEEP_REPLAYS" && cp "$S"/replays/* "$KEEP_REPLAYS"/ 2>/dev/null
done
exit 0
