#!/bin/bash
# Regression over the kept seeded changes: each seeded/<id> is applied to a scratch
# copy and the check of the property it breaks must exit 1 with a reproducing replay.
#   selftest/run_all_seeded.sh [-t tier] [ids...]
set -u
ROOT="$(cd "$(dirname "${BASH_SOURCE[0]}")/.." && pwd)"
tier=quick
while getopts "t:" o; do case $o in t) tier=$OPTARG ;; esac; done
shift $((OPTIND - 1))
[ $# -eq 0 ] && set -- $(ls "$ROOT/seeded" | grep "^S")
miss=0
for id in "$@"; do
	p=$(python3 -c 'import json,sys; print(json.load(open(sys.argv[1]))["breaks_property"])' "$ROOT/seeded/$id/meta.json")
	need=$(python3 -c 'import json,sys; print(json.load(open(sys.argv[1])).get("caught_from_tier","quick"))' "$ROOT/seeded/$id/meta.json")
	km=$(python3 -c 'import json,sys; print(json.load(open(sys.argv[1])).get("known_miss",""))' "$ROOT/seeded/$id/meta.json")
	if [ -n "$km" ]; then
		echo "$id $p KNOWN-MISS  (recorded blind spot, not re-run: $km)"
		continue
	fi
	if [ "$need" = thorough ] && [ "$tier" != thorough ]; then
		echo "$id $p SKIPPED  (caught from the thorough tier only; see meta.json)"
		continue
	fi
	out=$("$ROOT/selftest/run_seeded.sh" -t "$tier" -p "$p" "$ROOT/seeded/$id" 2>&1)
	line=$(echo "$out" | grep "^  $p ")
	if echo "$line" | grep -q "exit=1 .*replay=ok"; then
		echo "$id $p CAUGHT  $(echo "$line" | cut -c1-170)"
	else
		echo "$id $p MISSED  $(echo "$out" | tail -4 | cut -c1-200)"
		miss=$((miss + 1))
	fi
done
echo "missed: $miss"
exit $miss
