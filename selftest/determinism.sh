#!/bin/bash
# Determinism self-test of both engines (not a registered check).
#   selftest/determinism.sh [nseeds] [nprocs]
# keysim: for each seed and property, the full per-episode event log of a slice of
# the random episodes must be byte-identical across nprocs processes run at
# GOMAXPROCS 1/4/16. consim: the worker event stream (plans, yield counts, switch
# trace hashes, per-call result digests) must be byte-identical across nprocs
# processes, across the plain and the -race build, and across worker counts.
set -u
ROOT="$(cd "$(dirname "${BASH_SOURCE[0]}")/.." && pwd)"
cd "$ROOT"
export GOFLAGS=-mod=mod GOPROXY=off GOSUMDB=off GOTOOLCHAIN=local GOWORK=off
NSEEDS=${1:-20}
NPROCS=${2:-30}
fail=0
echo "== static scan: map iteration / sync.Map in decision or log paths"
grep -n "sync\.Map\|\.Range(func" -r keysim core consim cmd --include=*.go && { echo "sync.Map found"; fail=1; }
go build -tags "verif verifauth verifwots" -o bin/keysim ./cmd/keysim || exit 2
T=$(mktemp -d /tmp/verif-det-XXXXXX)
trap 'rm -rf "$T"' EXIT
echo "== keysim: $NSEEDS seeds x 4 properties x $NPROCS processes"
for seed in $(seq 101 $((100 + NSEEDS))); do
	for p in C01 C02 C08 C09; do
		fl=$(bin/keysim fixedlen $p quick $seed)
		from=$fl
		to=$((fl + 12))
		for i in $(seq 1 $NPROCS); do
			gmp=$((1 << (2 * (i % 3))))
			(GOMAXPROCS=$gmp bin/keysim dump $p quick $seed $from $to | sha256sum | cut -c1-16 >"$T/k.$seed.$p.$i") &
			[ $((i % 16)) -eq 0 ] && wait
		done
		wait
		n=$(cat "$T"/k.$seed.$p.* | sort -u | wc -l)
		if [ "$n" -ne 1 ]; then
			echo "NONDETERMINISTIC keysim seed=$seed prop=$p: $n distinct logs"
			fail=1
		fi
	done
done
echo "keysim done (fail=$fail)"
echo "== consim: plain vs race, worker counts, $NPROCS processes per seed"
cat >"$T/consim-det.sh" <<'EOS'
#!/bin/bash
# runs inside consim/run.sh exec: CONSIM_* exported
T=$1; NSEEDS=$2; NPROCS=$3; fail=0
for seed in $(seq 201 $((200 + NSEEDS))); do
	for i in $(seq 1 $NPROCS); do
		bin=$CONSIM_BIN_PLAIN
		[ $((i % 3)) -eq 0 ] && bin=$CONSIM_BIN_RACE
		# episodes 0,1 by one worker; every third process as two workers (0 and 1) concatenated in episode order
		if [ $((i % 4)) -eq 1 ]; then
			( { GOMAXPROCS=$((1 + i % 16)) $bin worker quick $seed 0 2 0 $CONSIM_SITES 2 4; GOMAXPROCS=4 $bin worker quick $seed 1 2 0 $CONSIM_SITES 2 4; } | grep -v '"done":true' | sha256sum | cut -c1-16 >"$T/c.$seed.$i" ) &
		else
			( GOMAXPROCS=$((1 + i % 16)) $bin worker quick $seed 0 1 0 $CONSIM_SITES 2 4 | grep -v '"done":true' | sha256sum | cut -c1-16 >"$T/c.$seed.$i" ) &
		fi
		[ $((i % 16)) -eq 0 ] && wait
	done
	wait
	n=$(cat "$T"/c.$seed.* | sort -u | wc -l)
	if [ "$n" -ne 1 ]; then
		echo "NONDETERMINISTIC consim seed=$seed: $n distinct event streams"
		fail=1
	fi
done
echo "consim done (fail=$fail)"
exit $fail
EOS
chmod +x "$T/consim-det.sh"
consim/run.sh exec "$T/consim-det.sh" "$T" "$NSEEDS" "$NPROCS" || fail=1
[ $fail -eq 0 ] && echo "DETERMINISM: OK" || echo "DETERMINISM: FAILED"
exit $fail
