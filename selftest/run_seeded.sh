#!/bin/bash
# Validate a seeded change and run the checks against it (not a registered check).
#   selftest/run_seeded.sh [-t tier] [-p "C01 C08"] <dir with patch.diff + demo_test.go>
# 1. demo passes on the pristine tree; 2. with the patch: builds, the repository's own
# tests pass, the demo fails; 3. every check (or those given with -p) is run against
# the patched scratch copy. Everything happens in a scratch copy under /tmp that is
# removed afterwards; /repo and /verif/evidence are not touched.
set -u
ROOT="$(cd "$(dirname "${BASH_SOURCE[0]}")/.." && pwd)"
export GOFLAGS=-mod=mod GOPROXY=off GOSUMDB=off GOTOOLCHAIN=local GOWORK=off
tier=quick
props="C01 C02 C08 C09 C15"
while getopts "t:p:" o; do
	case $o in
	t) tier=$OPTARG ;;
	p) props=$OPTARG ;;
	esac
done
shift $((OPTIND - 1))
D=$(readlink -f "$1")
name=$(basename "$(dirname "$D")")/$(basename "$D")
S=$(mktemp -d /tmp/verif-seed-XXXXXX)
trap 'rm -rf "$S"' EXIT
rsync -a --exclude .git /repo/ "$S/repo/"
pkg=$(sed -n 's#^// *place in: *\([a-zA-Z0-9_/]*\).*#\1#p' "$D/demo_test.go" | head -1)
pkg=${pkg%/}
[ -z "$pkg" ] && { echo "$name: demo_test.go does not say where it goes"; exit 2; }
cp "$D/demo_test.go" "$S/repo/$pkg/zz_demo_test.go"
(cd "$S/repo" && go test -count=1 -timeout 20m "./$pkg" >"$S/demo-pristine.log" 2>&1) && dp=pass || dp=FAIL
rm "$S/repo/$pkg/zz_demo_test.go"
if ! (cd "$S/repo" && patch -s -p1 <"$D/patch.diff" >"$S/patch.log" 2>&1); then
	echo "$name: PATCH DOES NOT APPLY to /repo HEAD"
	cat "$S/patch.log"
	exit 2
fi
(cd "$S/repo" && go build ./... >"$S/build.log" 2>&1) && b=ok || b=FAIL
(cd "$S/repo" && go test -count=1 ./... >"$S/suite.log" 2>&1) && st=pass || st=FAIL
cp "$D/demo_test.go" "$S/repo/$pkg/zz_demo_test.go"
(cd "$S/repo" && go test -count=1 -timeout 20m "./$pkg" >"$S/demo-patched.log" 2>&1) && dm=pass || dm=fail
rm "$S/repo/$pkg/zz_demo_test.go"
echo "$name: demo-on-pristine=$dp build=$b existing-suite=$st demo-with-patch=$dm   (valid seed iff pass/ok/pass/fail)"
for p in $props; do
	out=$(VERIF_REPO="$S/repo" VERIF_BIN="$S/bin" VERIF_EVIDENCE_DIR="$S/ev" VERIF_REPLAY_DIR="$S/replays" "$ROOT/check" "$p" "$tier" 2>"$S/err.$p")
	rc=$?
	v=$(echo "$out" | grep -c '^VIOLATION')
	first=$(echo "$out" | grep '^violation:' | head -2 | cut -c1-220 | tr '\n' '|')
	rp=-
	for f in $(echo "$out" | sed -n 's/^VIOLATION .*replay=//p'); do
		rp=ok
		VERIF_REPO="$S/repo" VERIF_BIN="$S/bin" "$ROOT/check" replay "$f" >/dev/null 2>&1
		[ $? -eq 1 ] || rp=REPLAY-DID-NOT-REPRODUCE
	done
	echo "  $p exit=$rc violations=$v replay=$rp $first"
	[ $rc -eq 2 ] && tail -3 "$S/err.$p" | sed 's/^/      /'
	[ -n "${KEEP_REPLAYS:-}" ] && [ -d "$S/replays" ] && mkdir -p "$KEEP_REPLAYS" && cp "$S"/replays/* "$KEEP_REPLAYS"/ 2>/dev/null
done
exit 0
