package keysim

import (
	"bytes"
	"crypto/rand"
	"crypto/sha256"
	"encoding/binary"
	"encoding/hex"
	"fmt"
	"os"
	"runtime"
	"strconv"
	"strings"

	"github.com/theQRL/go-qrllib/common"
	"github.com/theQRL/go-qrllib/misc"
	"github.com/theQRL/go-qrllib/xmss"

	"verif/core"
)

var traceOps = os.Getenv("KEYSIM_TRACE") != ""

const sigAuthOffset = 4 + 32 + 67*32 // index, R, WOTS signature (w=16, n=32)

// Result is what one executed episode reports.
type Result struct {
	Digest     string           `json:"digest"`
	ObsDigest  string           `json:"obs_digest,omitempty"` // wallet episodes: digest of what was observed of the original key
	Steps      int64            `json:"steps"`
	Faults     core.Counter     `json:"faults"`
	Probes     core.Counter     `json:"probes"`
	Nontrivial map[string]bool  `json:"nontrivial"` // per property
	Violations []core.Violation `json:"violations"`
	DeadState  int              `json:"dead_state_difference"`
	Unconf     int              `json:"unconfirmed_snapshot_difference"`
}

func newResult(ep *Episode) *Result {
	return &Result{Digest: ep.Digest(), Faults: core.Counter{}, Probes: core.Counter{}, Nontrivial: map[string]bool{}}
}

// stubLeaf is the leaf function installed behind the leaf seam. It depends on
// both address indices so that a wrong index in either address is visible.
func stubLeaf(leaf []uint8, lTreeIdx, otsIdx uint32) {
	var b [24]byte
	copy(b[:16], "verif-stub-leaf:")
	binary.BigEndian.PutUint32(b[16:], lTreeIdx)
	binary.BigEndian.PutUint32(b[20:], otsIdx)
	s := sha256.Sum256(b[:])
	copy(leaf[:32], s[:])
}

func expectedStubLeaf(i uint32) []byte {
	l := make([]byte, 32)
	stubLeaf(l, i, i)
	return l
}

// outcome of a guarded library call
type outcome struct {
	panicked  bool
	runtimeEr bool // panic value is a runtime.Error (index out of range, nil deref, ...)
	pval      string
}

func guard(f func()) (o outcome) {
	defer func() {
		if r := recover(); r != nil {
			o.panicked = true
			if _, ok := r.(runtime.Error); ok {
				o.runtimeEr = true
			}
			o.pval = fmt.Sprintf("%v", r)
			if len(o.pval) > 160 {
				o.pval = o.pval[:160]
			}
		}
	}()
	f()
	return
}

type observation struct {
	pk      [xmss.ExtendedPKSize]uint8
	addr    [common.AddressSize]uint8
	legacy  [xmss.LegacyAddressSize]uint8
	seed    [common.SeedSize]uint8
	ext     [common.ExtendedSeedSize]uint8
	height  uint8
	root    []byte
	pkSeed  []byte
	mnem    string
	hexSeed string
	addrRefused string
}

func observe(x *xmss.XMSS, full bool) (o observation, oc outcome) {
	oc = guard(func() {
		o.pk = x.GetPK()
		o.seed = x.GetSeed()
		o.ext = x.GetExtendedSeed()
		o.height = x.GetHeight()
		o.root = append([]byte(nil), x.GetRoot()...)
		o.pkSeed = append([]byte(nil), x.GetPKSeed()...)
		if full {
			// a key whose descriptor names an unsupported address format refuses to
			// derive an address: then the refusal is the (stable) observation
			if ao := guard(func() { o.addr = x.GetAddress() }); ao.panicked {
				o.addrRefused = "refused:" + ao.pval
			}
			if ao := guard(func() { o.legacy = x.GetLegacyAddress() }); ao.panicked {
				o.addrRefused += "|legacy refused:" + ao.pval
			}
			o.mnem = x.GetMnemonic()
			o.hexSeed = x.GetHexSeed()
		}
	})
	return
}

func (a *observation) diff(b *observation, full bool) string {
	var d []string
	if a.pk != b.pk {
		d = append(d, "GetPK")
	}
	if a.seed != b.seed {
		d = append(d, "GetSeed")
	}
	if a.ext != b.ext {
		d = append(d, "GetExtendedSeed")
	}
	if a.height != b.height {
		d = append(d, "GetHeight")
	}
	if !bytes.Equal(a.root, b.root) {
		d = append(d, "GetRoot")
	}
	if !bytes.Equal(a.pkSeed, b.pkSeed) {
		d = append(d, "GetPKSeed")
	}
	if full {
		if a.addr != b.addr || a.addrRefused != b.addrRefused {
			d = append(d, "GetAddress")
		}
		if a.legacy != b.legacy {
			d = append(d, "GetLegacyAddress")
		}
		if a.mnem != b.mnem {
			d = append(d, "GetMnemonic")
		}
		if a.hexSeed != b.hexSeed {
			d = append(d, "GetHexSeed")
		}
	}
	return strings.Join(d, ",")
}

// liveSnapshotDiff names the first field in which two snapshots differ,
// ignoring stack entries above the stack pointer (dead by construction). The
// snapshot is a reflective field list, so it follows whatever layout the
// library has; the stack special case applies only if fields of those names exist.
func liveSnapshotDiff(a, b *xmss.VerifState) (d string) {
	defer func() {
		if r := recover(); r != nil {
			d = "snapshot-layout"
		}
	}()
	if a == nil || b == nil {
		return ""
	}
	if len(a.Fields) != len(b.Fields) {
		return "field-count"
	}
	off := -1
	for _, f := range a.Fields {
		if strings.HasSuffix(f.Path, ".stackOffset") {
			if n, err := strconv.Atoi(string(f.Data)); err == nil {
				off = n
			}
		}
	}
	for i := range a.Fields {
		fa, fb := a.Fields[i], b.Fields[i]
		if fa.Path != fb.Path {
			return "field-order"
		}
		da, db := fa.Data, fb.Data
		if off >= 0 && len(da) == len(db) {
			switch {
			case strings.HasSuffix(fa.Path, ".stack") && off*32 <= len(da):
				da, db = da[:off*32], db[:off*32]
			case strings.HasSuffix(fa.Path, ".stackLevels") && off <= len(da):
				da, db = da[:off], db[:off]
			}
		}
		if !bytes.Equal(da, db) {
			return fa.Path
		}
	}
	return ""
}

func fullSnapshotDiff(a, b *xmss.VerifState) string {
	if a == nil || b == nil {
		return ""
	}
	if len(a.Fields) != len(b.Fields) {
		return "field-count"
	}
	for i := range a.Fields {
		if a.Fields[i].Path != b.Fields[i].Path || !bytes.Equal(a.Fields[i].Data, b.Fields[i].Data) {
			return a.Fields[i].Path
		}
	}
	return ""
}

// message builds the message of a sign op in the shape the op asks for.
func (x *xexec) message(op *Op) []byte {
	switch op.MK {
	case "nil":
		return nil
	case "cap":
		b := make([]byte, op.ML, op.ML+96)
		copy(b, core.MsgBytes(op.MS, op.ML))
		return b
	case "prevsig":
		if n := len(x.heldSigs); n > 0 {
			return x.heldSigs[n-1].sig
		}
	}
	return core.MsgBytes(op.MS, op.ML)
}

// heldSig is a signature exactly as the key returned it (the slice itself, not
// a copy) with its digest at that moment. A caller keeps signatures; if a later
// operation of the key rewrites one in place it no longer verifies.
type heldSig struct {
	idx uint32
	sig []byte
	sum [32]byte
	msg []byte
}

// checkHeld: every signature still held must be byte-identical to what was returned.
func (x *xexec) checkHeld() {
	for _, h := range x.heldSigs {
		if sha256.Sum256(h.sig) != h.sum {
			x.violate("C01", "returned-signature-rewritten", fmt.Sprintf("%s,idx=%d", x.cfgSig(), h.idx), fmt.Sprintf("the signature returned at index %d was modified in place by a later operation of the key; the caller's copy no longer verifies", h.idx))
			x.heldSigs = nil
			return
		}
	}
}

// snap takes a state snapshot through the hook; nil if the hook cannot cope
// with the (changed) library's layout.
func snap(k *xmss.XMSS) (s *xmss.VerifState) {
	defer func() {
		if recover() != nil {
			s = nil
		}
	}()
	return k.VerifSnapshot()
}

type xexec struct {
	ep        *Episode
	res       *Result
	h         uint32
	leaves    uint32 // 2^h
	hashFn    xmss.HashFunction
	seed      [48]byte
	live      *xmss.XMSS
	twin      *xmss.XMSS
	model     uint32 // the counter automaton's idx, in [0, 2^h]
	base      observation
	root      []byte
	pubSeed   []byte
	lastEmit  int64 // last emitted index, -1 if none
	refused   bool  // a refused op occurred since construction / last restart
	restarted bool
	twinMode  string // how the twin follows valid forward jumps: mirror | unit | sign
	dead      bool // live object unusable after a failed valid op; stop
	opNo      int
	stepNo    int64
	wotsChecks int
	heldSigs  []heldSig // signatures the key returned, kept as returned (no copy)
	pendSnap  []string // snapshot differences awaiting confirmation by observation
	diverged  bool     // an observable live/twin divergence was reported
	// durable record (copied, never aliases the object)
	durExt  [51]byte
	durHex  string
	durMnem string
}

func (x *xexec) where() string { return fmt.Sprintf("op%d/step%d/idx%d", x.opNo, x.stepNo, x.model) }

func (x *xexec) cfgSig() string {
	return fmt.Sprintf("h=%d,hash=%d,stub=%v", x.ep.Height, x.ep.Hash, x.ep.Stub)
}

func (x *xexec) violate(prop, oracle, sig, detail string) {
	x.res.Violations = append(x.res.Violations, core.Violation{Property: prop, Oracle: oracle, Where: x.where(), Detail: detail, Signature: oracle + ":" + sig})
}

func build(seed [48]byte, h uint8, hf xmss.HashFunction) (k *xmss.XMSS, o outcome) {
	o = guard(func() { k = xmss.NewXMSSFromSeed(seed, h, hf, common.SHA256_2X) })
	return
}

// RunXMSS executes an episode of kind "xmss".
func RunXMSS(ep *Episode) *Result {
	res := newResult(ep)
	x := &xexec{ep: ep, res: res, h: uint32(ep.Height), hashFn: xmss.HashFunction(ep.Hash), lastEmit: -1}
	x.leaves = uint32(1) << x.h
	x.twinMode = ep.Twin
	seed, err := ep.seed48()
	if err != nil {
		panic(err)
	}
	x.seed = seed
	if ep.Stub {
		xmss.VerifSetLeafFunc(stubLeaf)
	} else {
		xmss.VerifSetLeafFunc(nil)
	}
	defer xmss.VerifSetLeafFunc(nil)
	res.Probes.Add(fmt.Sprintf("cell:h=%d,hash=%d,stub=%v", ep.Height, ep.Hash, ep.Stub), 1)

	var oc outcome
	switch ep.Ctor {
	case "", "seed":
		x.live, oc = build(seed, ep.Height, x.hashFn)
	case "ext", "extfmt":
		var e [common.ExtendedSeedSize]uint8
		oc = guard(func() {
			d := xmss.NewQRLDescriptor(ep.Height, x.hashFn, common.XMSSSig, common.SHA256_2X).GetBytes()
			if ep.Ctor == "extfmt" { // a descriptor with non-default address-format bits
				d[1] |= 0x10
			}
			copy(e[:3], d[:])
			copy(e[3:], seed[:])
			x.live = xmss.NewXMSSFromExtendedSeed(e)
		})
	case "height":
		// the entropy stream is the episode's seed bytes: the key must come out
		// as if built from that seed
		plan := &EntropyPlan{ErrAfter: -1}
		ent := &simEntropy{plan: plan, want: 48, fixed: seed[:]}
		saved := rand.Reader
		rand.Reader = ent
		oc = guard(func() { x.live = xmss.NewXMSSFromHeight(ep.Height, x.hashFn) })
		rand.Reader = saved
	default:
		panic("unknown constructor " + ep.Ctor)
	}
	res.Probes.Add("ctor:"+map[string]string{"": "seed"}[ep.Ctor]+ep.Ctor, 1)
	if oc.panicked || x.live == nil {
		x.violate("C01", "construct-failed", x.cfgSig()+",ctor="+ep.Ctor, "constructor panicked: "+oc.pval)
		return res
	}
	if ep.Twin != "none" && ep.Ctor == "extfmt" {
		// NewXMSSFromSeed cannot express this descriptor: the twin comes from the same extended seed
		oc = guard(func() { x.twin = xmss.NewXMSSFromExtendedSeed(x.live.GetExtendedSeed()) })
		if oc.panicked {
			x.violate("C01", "construct-failed", x.cfgSig(), "second NewXMSSFromExtendedSeed panicked: "+oc.pval)
			return res
		}
	} else if ep.Twin != "none" {
		x.twin, oc = build(seed, ep.Height, x.hashFn)
		if oc.panicked {
			x.violate("C01", "construct-failed", x.cfgSig(), "second NewXMSSFromSeed panicked: "+oc.pval)
			return res
		}
	}
	x.base, oc = observe(x.live, true)
	if oc.panicked {
		x.violate("C02", "getter-panicked", x.cfgSig(), oc.pval)
		return res
	}
	x.root = x.base.pk[3:35]
	x.pubSeed = x.base.pk[35:67]
	x.durExt = x.base.ext
	x.durHex = x.base.hexSeed
	x.durMnem = x.base.mnem
	if x.base.height != ep.Height {
		x.violate("C09", "height-mismatch", x.cfgSig(), fmt.Sprintf("GetHeight=%d want %d", x.base.height, ep.Height))
	}
	if g := x.live.GetIndex(); g != 0 {
		x.violate("C02", "index-mismatch", "fresh", fmt.Sprintf("fresh key GetIndex=%d", g))
	}
	if x.twin != nil {
		// same (seed, height, hash) through two constructors, or twice through
		// one: the keys must be the same key
		if to, toc := observe(x.twin, true); !toc.panicked {
			if d := x.base.diff(&to, true); d != "" {
				x.violate("C09", "constructors-disagree", x.cfgSig()+",ctor="+ep.Ctor+","+d, "the key built by constructor '"+ep.Ctor+"' and the key built by NewXMSSFromSeed from the same seed differ in "+d)
			}
		}
		if d := liveSnapshotDiff(snap(x.live), snap(x.twin)); d != "" {
			x.pendSnap = append(x.pendSnap, "construction: "+d)
		}
	}

	for i := range ep.Ops {
		if x.dead {
			break
		}
		x.opNo = i
		op := &ep.Ops[i]
		if traceOps {
			fmt.Fprintf(os.Stderr, "KEYSIM-TRACE op=%d\n", i)
		}
		switch op.K {
		case "sign":
			x.doSign(x.message(op))
		case "jump":
			x.doJump(op.J)
		case "walk":
			for s := uint32(0); s < op.N && !x.dead; s++ {
				if op.Via == "unit" {
					if x.ep.Stub {
						x.checkAuthFromSnapshot()
					}
					x.doJump(x.model + 1)
				} else {
					x.doSign(core.MsgBytes(op.MS+uint64(s), op.ML))
				}
			}
		case "crash":
			x.doCrash(op)
		case "sibling", "other":
			// the process also works with another key meanwhile: one built from the
			// SAME seed with another hash function (sibling), or an unrelated one
			// (other). Neither may influence this key.
			x.stepNo++
			sd := x.seed
			ohf := xmss.SHAKE_128
			if x.hashFn == xmss.SHAKE_128 {
				ohf = xmss.SHAKE_256
			}
			if op.K == "other" {
				core.NewRand(op.MS ^ 0x07).Bytes(sd[:])
				ohf = xmss.HashFunction(op.MS % 3)
			}
			guard(func() {
				k := xmss.NewXMSSFromSeed(sd, 4, ohf, common.SHA256_2X)
				k.SetIndex(uint32(op.MS % 5))
				if _, err := k.Sign([]byte("another key")); err != nil {
					panic(err)
				}
			})
			x.res.Probes.Add("other-key-in-process:"+op.K, 1)
		default:
			panic("unknown op kind " + op.K)
		}
	}
	if traceOps {
		fmt.Fprintf(os.Stderr, "KEYSIM-TRACE op=%d\n", len(ep.Ops))
	}
	if !x.dead {
		x.drain()
	}
	if !x.dead {
		x.checkObs(true, "end")
	}
	x.checkHeld()
	// snapshot differences that no observation confirmed
	if len(x.pendSnap) > 0 && !x.diverged {
		if x.model >= x.leaves { // drained to the end of life: provably dead state
			res.DeadState += len(x.pendSnap)
		} else {
			res.Unconf += len(x.pendSnap)
		}
	}
	res.Steps = x.stepNo
	return res
}

func (x *xexec) checkObs(full bool, when string) {
	o, oc := observe(x.live, full)
	if oc.panicked {
		x.violate("C02", "getter-panicked", when, oc.pval)
		return
	}
	if d := x.base.diff(&o, full); d != "" {
		x.violate("C02", "identity-changed", d, "after "+when+": "+d+" differ from construction time")
	}
	if g := x.live.GetIndex(); g != x.model {
		x.violate("C02", "index-mismatch", when, fmt.Sprintf("GetIndex=%d model=%d", g, x.model))
	}
	// the serialised index a wallet would persist (first four bytes of GetSK)
	oc2 := guard(func() {
		if sk := x.live.GetSK(); len(sk) >= 4 {
			if g := binary.BigEndian.Uint32(sk[:4]); g != x.model {
				x.violate("C02", "index-mismatch", when+",GetSK", fmt.Sprintf("GetSK()[0:4]=%d model=%d", g, x.model))
			}
		}
	})
	if oc2.panicked {
		x.violate("C02", "getter-panicked", when, "GetSK: "+oc2.pval)
	}
}

func tau(idx, h uint32) uint32 {
	for i := uint32(0); i < h; i++ {
		if (idx>>i)&1 == 0 {
			return i
		}
	}
	return h
}

// divergenceProperty attributes an observable live/twin difference.
func (x *xexec) divergenceProperty() (string, string) {
	if x.restarted || x.ep.Twin != "mirror" {
		return "C08", "diverges-from-twin"
	}
	if x.refused {
		return "C02", "refused-op-changed-state"
	}
	return "C08", "nondeterministic-twin"
}

func (x *xexec) doSign(msg []byte) {
	x.stepNo++
	idx := x.model
	expectEmit := idx < x.leaves
	var snapBefore *xmss.VerifState
	if !expectEmit {
		snapBefore = snap(x.live)
	}
	var sig []byte
	var err error
	oc := guard(func() { sig, err = x.live.Sign(msg) })
	if expectEmit {
		x.res.Probes.Add("sign:tau="+strconv.Itoa(int(tau(idx, x.h))), 1)
		if idx == x.leaves-1 {
			x.res.Probes.Add("sign:last-index", 1)
		}
		if x.refused {
			x.res.Probes.Add("sign:after-refused-op", 1)
			x.res.Nontrivial["C02"] = true
		}
		if idx > 0 {
			x.res.Nontrivial["C01"] = true
		}
		if oc.panicked && oc.runtimeEr {
			x.violate("C01", "sign-runtime-panic", fmt.Sprintf("%s,idx=%d", x.cfgSig(), idx), "Sign at a valid index raised "+oc.pval)
			x.violate("C02", "valid-sign-refused", fmt.Sprintf("%s,idx=%d", x.cfgSig(), idx), "model emits index but Sign panicked: "+oc.pval)
			x.dead = true
			return
		}
		if oc.panicked || err != nil || sig == nil {
			// an explicit refusal where the automaton emits: a deviation (C02).
			// The object stays in use, so what the refusal did to it shows in
			// the other oracles too.
			x.violate("C02", "valid-sign-refused", fmt.Sprintf("%s,idx=%d,msglen=%s", x.cfgSig(), idx, lenClass(len(msg))), fmt.Sprintf("model emits index %d but Sign refused: panic=%q err=%v", idx, oc.pval, err))
			x.resyncAfterUnexpectedRefusal(idx)
			return
		}
		x.model = idx + 1
		// C02: embedded index, monotonicity, GetIndex
		if len(sig) < 4 {
			x.violate("C02", "emitted-index", "short-signature", "signature shorter than 4 bytes")
		} else {
			e := binary.BigEndian.Uint32(sig[:4])
			if e != idx {
				x.violate("C02", "emitted-index", fmt.Sprintf("%s,idx=%d", x.cfgSig(), idx), fmt.Sprintf("signature carries index %d, model %d", e, idx))
			}
			if int64(e) <= x.lastEmit {
				x.violate("C02", "index-reused", fmt.Sprintf("%s,idx=%d", x.cfgSig(), idx), fmt.Sprintf("emitted %d after %d", e, x.lastEmit))
			}
			if e >= x.leaves {
				x.violate("C02", "index-exceeded", fmt.Sprintf("%s,idx=%d", x.cfgSig(), e), fmt.Sprintf("emitted index %d >= 2^h", e))
			}
			x.lastEmit = int64(e)
		}
		if g := x.live.GetIndex(); g != x.model {
			x.violate("C02", "index-mismatch", "after-sign", fmt.Sprintf("GetIndex=%d after signing at %d", g, idx))
		}
		x.checkObs(false, "sign")
		// C01
		x.checkSignature(msg, sig, idx)
		x.checkHeld()
		if len(x.heldSigs) < 48 {
			x.heldSigs = append(x.heldSigs, heldSig{idx, sig, sha256.Sum256(sig), msg})
		}
		// twin
		if x.twin != nil && x.twinMode == "ff" {
			// the twin never signs: it follows by SetIndex, so every index
			// compares the signing path's state with the fast-forward path's
			if idx+1 < x.leaves {
				toc := guard(func() { x.twin.SetIndex(idx + 1) })
				if toc.panicked {
					x.twinBroke("SetIndex", idx+1, toc, nil)
				} else {
					x.compareAuthWithTwin()
				}
			} else {
				x.twin = nil // cannot follow to exhaustion without signing
			}
		} else if x.twin != nil {
			var tsig []byte
			var terr error
			toc := guard(func() { tsig, terr = x.twin.Sign(msg) })
			if toc.panicked || terr != nil || tsig == nil {
				x.twinBroke("Sign", idx, toc, terr)
			} else if !bytes.Equal(sig, tsig) {
				p, o := x.divergenceProperty()
				x.diverged = true
				x.violate(p, o, fmt.Sprintf("%s,sign@%d,part=%s", x.cfgSig(), idx, sigPart(sig, tsig)), fmt.Sprintf("signature at index %d differs from the twin's in %s", idx, sigPart(sig, tsig)))
			} else if x.restarted {
				x.res.Nontrivial["C08"] = true
			}
		}
		return
	}
	// model refuses (exhausted)
	x.res.Faults.Add("refused-exhausted", 1)
	x.res.Probes.Add("refusal-at-2^h", 1)
	refusedOK := oc.panicked || (err != nil && sig == nil)
	if !refusedOK {
		d := "Sign returned a signature after the last leaf was used"
		if len(sig) >= 4 {
			d += fmt.Sprintf(" (embedded index %d)", binary.BigEndian.Uint32(sig[:4]))
		}
		x.violate("C02", "exhausted-sign-accepted", x.cfgSig(), d)
	}
	x.afterRefused(snapBefore, "sign@exhausted")
}

func lenClass(n int) string {
	switch {
	case n == 0:
		return "0"
	case n <= 64:
		return "1..64"
	}
	return ">64"
}

// resyncAfterUnexpectedRefusal: the implementation refused an operation the
// model performs. If it left the index alone, the model stays; if it consumed
// the index anyway (index+1 without a signature), the model follows and the twin
// is advanced by a valid operation of its own, never by replaying the refused
// one. Anything else ends the episode.
func (x *xexec) resyncAfterUnexpectedRefusal(idx uint32) {
	x.refused = true
	g := x.live.GetIndex()
	switch {
	case g == idx:
	case g == idx+1 && g <= x.leaves:
		x.model = g
		if x.twin != nil && g < x.leaves {
			saved := x.twinMode
			if saved == "mirror" {
				x.twinMode = "unit"
			}
			x.twinAdvance(idx, g)
			x.twinMode = saved
		}
	default:
		x.violate("C02", "refused-op-changed-index", "unexpected-refusal", fmt.Sprintf("GetIndex=%d after a refused operation at %d", g, idx))
		x.dead = true
	}
}

func sigPart(a, b []byte) string {
	if len(a) != len(b) {
		return "length"
	}
	for i := range a {
		if a[i] != b[i] {
			switch {
			case i < 4:
				return "index"
			case i < 36:
				return "R"
			case i < sigAuthOffset:
				return "wots"
			default:
				return "auth"
			}
		}
	}
	return "none"
}

func (x *xexec) twinBroke(what string, idx uint32, toc outcome, terr error) {
	if toc.runtimeEr {
		x.violate("C01", "sign-runtime-panic", fmt.Sprintf("%s,twin,idx=%d", x.cfgSig(), idx), "twin "+what+" at a valid index raised "+toc.pval)
	}
	x.violate("C02", "valid-op-refused", fmt.Sprintf("%s,twin,idx=%d", x.cfgSig(), idx), fmt.Sprintf("twin %s refused a valid operation: panic=%q err=%v", what, toc.pval, terr))
	x.twin = nil
}

// checkSignature is the C01 oracle for one emitted signature.
func (x *xexec) checkSignature(msg, sig []byte, idx uint32) {
	wantLen := sigAuthOffset + int(x.h)*32
	if x.ep.Stub {
		if len(sig) != wantLen {
			x.violate("C01", "signature-length", x.cfgSig(), fmt.Sprintf("len=%d want %d", len(sig), wantLen))
			return
		}
		x.checkAuth(sig[sigAuthOffset:], idx, "sign")
		// the WOTS part is real code even with stub leaves: for a sample of
		// signatures recompute the leaf it commits to (as verification would)
		// and compare it with the real leaf of that index
		if xmss.VerifWOTSCheck == nil {
			x.res.Probes.Add("wots-part-hook-unavailable", 1)
		} else if idx < 2 || idx%61 == 0 || idx >= x.leaves-1 || x.wotsChecks < 8 || idx&0xff == 0 {
			x.wotsChecks++
			good := false
			oc := guard(func() { good = xmss.VerifWOTSCheck(x.live, msg, sig, idx) })
			x.res.Probes.Add("wots-part-checked-in-stub-mode", 1)
			if oc.panicked || !good {
				x.violate("C01", "wots-part-wrong", fmt.Sprintf("%s,idx=%d", x.cfgSig(), idx), fmt.Sprintf("the WOTS part of the signature at index %d does not lead to that index's leaf: Verify would reject it %s", idx, oc.pval))
			}
		}
		return
	}
	var ok bool
	oc := guard(func() { ok = xmss.Verify(msg, sig, x.base.pk) })
	if oc.panicked {
		x.violate("C01", "verify-panicked", fmt.Sprintf("%s,idx=%d", x.cfgSig(), idx), "Verify panicked on a signature the key returned: "+oc.pval)
	} else if !ok {
		x.violate("C01", "signature-rejected", fmt.Sprintf("%s,idx=%d", x.cfgSig(), idx), fmt.Sprintf("Verify=false for the signature returned at index %d (msg len %d)", idx, len(msg)))
	}
}

func (x *xexec) checkAuth(auth []byte, idx uint32, via string) {
	if xmss.VerifRootFromAuth == nil {
		x.res.Probes.Add("auth-path-hook-unavailable", 1)
		return
	}
	var root []byte
	oc := guard(func() {
		root = xmss.VerifRootFromAuth(x.hashFn, expectedStubLeaf(idx), idx, auth, x.h, x.pubSeed)
	})
	if oc.panicked || !bytes.Equal(root, x.root) {
		x.violate("C01", "auth-path-wrong", fmt.Sprintf("%s,idx=%d", x.cfgSig(), idx), fmt.Sprintf("authentication path at index %d (%s) does not lead to the root %s", idx, via, oc.pval))
	}
}

func (x *xexec) checkAuthFromSnapshot() {
	if x.model >= x.leaves {
		return
	}
	s := snap(x.live)
	if s == nil || s.Auth == nil {
		x.res.Probes.Add("hook:auth-not-visible", 1)
		return
	}
	x.res.Probes.Add("hook:auth-checked-from-state", 1)
	x.checkAuth(s.Auth, x.model, "state")
	if x.model > 0 {
		x.res.Nontrivial["C01"] = true
	}
}

func (x *xexec) afterRefused(before *xmss.VerifState, what string) {
	x.refused = true
	if g := x.live.GetIndex(); g != x.model {
		x.violate("C02", "refused-op-changed-index", what, fmt.Sprintf("GetIndex=%d after a refused %s, was %d", g, what, x.model))
	}
	x.checkObs(true, "refused "+what)
	if before != nil {
		if d := fullSnapshotDiff(before, snap(x.live)); d != "" {
			x.pendSnap = append(x.pendSnap, "refused "+what+": "+d)
		}
	}
}

func (x *xexec) doJump(j uint32) {
	x.stepNo++
	idx := x.model
	valid := j >= idx && j < x.leaves
	var before *xmss.VerifState
	if !valid {
		before = snap(x.live)
	}
	oc := guard(func() { x.live.SetIndex(j) })
	if valid {
		if j == idx {
			x.res.Probes.Add("jump:distance-0", 1)
		}
		if idx < x.leaves/2 && j >= x.leaves/2 {
			x.res.Probes.Add("jump:crosses-half", 1)
		}
		if j == x.leaves-1 {
			x.res.Probes.Add("jump:to-last", 1)
		}
		if oc.panicked && oc.runtimeEr {
			x.violate("C01", "jump-runtime-panic", fmt.Sprintf("%s,%d->%d", x.cfgSig(), idx, j), "valid forward SetIndex raised "+oc.pval)
			x.violate("C02", "valid-jump-refused", fmt.Sprintf("%s,%d->%d", x.cfgSig(), idx, j), "model accepts SetIndex but it panicked: "+oc.pval)
			x.dead = true
			return
		}
		if oc.panicked {
			x.violate("C02", "valid-jump-refused", fmt.Sprintf("%s,%d->%d", x.cfgSig(), idx, j), "model accepts SetIndex but it was refused: "+oc.pval)
			x.resyncAfterUnexpectedRefusal(idx)
			return
		}
		x.model = j
		if g := x.live.GetIndex(); g != j {
			x.violate("C02", "index-mismatch", "after-jump", fmt.Sprintf("GetIndex=%d after SetIndex(%d) from %d", g, j, idx))
		}
		x.checkObs(false, "jump")
		if x.twin != nil {
			x.twinAdvance(idx, j)
		}
		return
	}
	if j < idx {
		x.res.Faults.Add("refused-rewind", 1)
	} else {
		x.res.Faults.Add("refused-too-high", 1)
	}
	if !oc.panicked {
		// a silent no-op that leaves everything as it was counts as refused
		if g := x.live.GetIndex(); g != idx {
			x.violate("C02", "invalid-jump-accepted", fmt.Sprintf("%s,%s", x.cfgSig(), jumpClass(idx, j, x.leaves)), fmt.Sprintf("SetIndex(%d) at index %d (2^h=%d) was accepted: GetIndex=%d", j, idx, x.leaves, g))
			x.dead = true
			return
		}
	}
	x.afterRefused(before, "jump:"+jumpClass(idx, j, x.leaves))
}

func jumpClass(idx, j, leaves uint32) string {
	if j < idx {
		return "rewind"
	}
	if j == leaves {
		return "to-2^h"
	}
	return "beyond-2^h"
}

func (x *xexec) twinAdvance(from, to uint32) {
	var oc outcome
	switch x.twinMode {
	case "unit":
		oc = guard(func() {
			for k := from; k < to; k++ {
				x.twin.SetIndex(k + 1)
			}
		})
	case "sign":
		oc = guard(func() {
			for k := from; k < to; k++ {
				if _, err := x.twin.Sign([]byte{byte(k)}); err != nil {
					panic(err)
				}
			}
		})
	default:
		oc = guard(func() { x.twin.SetIndex(to) })
	}
	if oc.panicked {
		x.twinBroke("advance", to, oc, nil)
	}
}

func (x *xexec) rebuild(form string) (k *xmss.XMSS, oc outcome) {
	if form == "seed" && x.ep.Ctor == "extfmt" {
		form = "ext" // (seed, height, hash) does not carry the non-default descriptor bits
	}
	oc = guard(func() {
		switch form {
		case "seed":
			k = xmss.NewXMSSFromSeed(x.seed, x.ep.Height, x.hashFn, common.SHA256_2X)
		case "ext":
			k = xmss.NewXMSSFromExtendedSeed(x.durExt)
		case "hex":
			b, err := hex.DecodeString(strings.TrimPrefix(x.durHex, "0x"))
			if err != nil || len(b) != common.ExtendedSeedSize {
				panic(fmt.Sprintf("hex seed %q does not decode to 51 bytes", x.durHex))
			}
			var e [common.ExtendedSeedSize]uint8
			copy(e[:], b)
			k = xmss.NewXMSSFromExtendedSeed(e)
		case "mnemonic":
			k = xmss.NewXMSSFromExtendedSeed(misc.MnemonicToExtendedSeedBin(x.durMnem))
		default:
			panic("unknown secret form " + form)
		}
	})
	return
}

func (x *xexec) doCrash(op *Op) {
	x.stepNo++
	crashIdx := x.model
	r := crashIdx
	if len(op.Plan) > 0 {
		r = op.Plan[len(op.Plan)-1]
	} else if op.Signs > 0 {
		r = uint32(op.Signs)
	}
	if r < crashIdx {
		panic(fmt.Sprintf("episode restores to %d below crash index %d: not a reserve-then-sign wallet", r, crashIdx))
	}
	x.res.Faults.Add("crash-restart:form="+op.Form, 1)
	x.res.Faults.Add("crash-restart:plan="+planKind(op), 1)
	switch {
	case crashIdx == 0:
		x.res.Probes.Add("restart:at-0", 1)
	case crashIdx == x.leaves-1:
		x.res.Probes.Add("restart:at-last", 1)
	case crashIdx == x.leaves:
		x.res.Probes.Add("restart:at-2^h", 1)
	}
	if len(op.Plan) >= 3 {
		x.res.Probes.Add("restart:plan>=3-jumps", 1)
	}
	x.live = nil
	nk, oc := x.rebuild(op.Form)
	if oc.panicked || nk == nil {
		x.violate("C09", "restore-failed", fmt.Sprintf("%s,form=%s", x.cfgSig(), op.Form), "rebuilding from the exported secret failed: "+oc.pval)
		x.dead = true
		return
	}
	x.live = nk
	x.restarted = true
	x.refused = false
	// the twin reaches r too
	if x.twin != nil && r > crashIdx && r < x.leaves {
		x.twinAdvance(crashIdx, r)
	}
	x.model = 0
	// restore the index
	if r >= x.leaves {
		// r == 2^h: the last leaf was used; the index cannot be restored (C02
		// refuses it) and neither object may sign. Only that is asserted.
		oc := guard(func() { x.live.SetIndex(r) })
		if !oc.panicked && x.live.GetIndex() >= x.leaves {
			// accepted an index past the last leaf: C02's business
			x.violate("C02", "invalid-jump-accepted", fmt.Sprintf("%s,to-2^h", x.cfgSig()), "restore SetIndex(2^h) accepted")
		}
		x.model = r
		x.dead = true
		return
	}
	roc := guard(func() {
		for s := 0; s < op.Signs; s++ {
			if _, err := x.live.Sign([]byte{byte(s)}); err != nil {
				panic(err)
			}
		}
		for _, j := range op.Plan {
			x.live.SetIndex(j)
		}
	})
	if roc.panicked {
		if roc.runtimeEr {
			x.violate("C01", "jump-runtime-panic", fmt.Sprintf("%s,restore->%d", x.cfgSig(), r), "restore plan raised "+roc.pval)
		}
		x.violate("C08", "restore-plan-refused", fmt.Sprintf("%s,form=%s,plan=%s", x.cfgSig(), op.Form, planKind(op)), "fast-forward to the saved index failed: "+roc.pval)
		x.dead = true
		return
	}
	x.model = r
	if g := x.live.GetIndex(); g != r {
		x.violate("C08", "restored-index", fmt.Sprintf("%s,form=%s", x.cfgSig(), op.Form), fmt.Sprintf("GetIndex=%d after restoring to %d", g, r))
	}
	// identity of the rebuilt key (C09's observation, asserted here as well
	// because every later comparison presupposes it)
	o, ooc := observe(x.live, true)
	if ooc.panicked {
		x.violate("C09", "restore-failed", fmt.Sprintf("%s,form=%s", x.cfgSig(), op.Form), "getter panicked on the rebuilt key: "+ooc.pval)
		x.dead = true
		return
	}
	if d := x.base.diff(&o, true); d != "" {
		x.violate("C09", "restored-identity", fmt.Sprintf("%s,form=%s,%s", x.cfgSig(), op.Form, d), "rebuilt key differs from the original in "+d)
	}
	if x.twin != nil {
		if d := liveSnapshotDiff(snap(x.live), snap(x.twin)); d != "" {
			x.pendSnap = append(x.pendSnap, fmt.Sprintf("restart@%d->%d form=%s: %s", crashIdx, r, op.Form, d))
		}
	}
	if x.ep.Regen {
		// second generation: the wallet re-exports its secrets from the rebuilt
		// object; the next restart uses those
		x.seed = o.seed
		x.durExt = o.ext
		x.durHex = string(append([]byte(nil), o.hexSeed...))
		x.durMnem = string(append([]byte(nil), o.mnem...))
		x.res.Probes.Add("restart:secrets-re-exported", 1)
	}
}

func planKind(op *Op) string {
	switch {
	case op.Signs > 0 && len(op.Plan) > 0:
		return "mixed"
	case op.Signs > 0:
		return "signs"
	case len(op.Plan) == 1:
		return "one-jump"
	case len(op.Plan) > 1:
		return "multi-jump"
	}
	return "none"
}

// drain walks the live object and the twin towards the end of the key's life.
func (x *xexec) drain() {
	mode := x.ep.Drain
	if mode == "" || mode == "none" {
		return
	}
	limit := int64(-1)
	if strings.HasPrefix(mode, "tail:") {
		n, err := strconv.Atoi(strings.TrimPrefix(mode, "tail:"))
		if err != nil {
			panic("bad drain mode " + mode)
		}
		limit = int64(n)
	}
	// a pending snapshot difference must be confirmed or refuted over the
	// whole remaining life where that is affordable
	if len(x.pendSnap) > 0 && (x.ep.Stub || x.h <= 8) {
		limit = -1
	}
	rng := core.NewRand(x.ep.DrainSeed ^ 0xd7a1)
	signEvery := 6
	if !x.ep.Stub {
		signEvery = 3
	}
	x.opNo = len(x.ep.Ops)
	steps := int64(0)
	for !x.dead && x.model < x.leaves {
		if limit >= 0 && steps >= limit && x.model < x.leaves-1 {
			// jump both to the last index
			saved := x.twinMode
			x.twinMode = "mirror"
			x.doJump(x.leaves - 1)
			x.twinMode = saved
			continue
		}
		steps++
		x.compareAuthWithTwin()
		if x.ep.Stub {
			x.checkAuthFromSnapshot()
		}
		if x.model == x.leaves-1 || rng.Intn(signEvery) == 0 {
			x.doSign(core.MsgBytes(x.ep.DrainSeed+uint64(x.model), 32))
		} else {
			x.doJump(x.model + 1)
		}
	}
	if !x.dead && x.model == x.leaves {
		// exhausted: one more signature must be refused
		x.doSign(core.MsgBytes(x.ep.DrainSeed, 16))
	}
}

func (x *xexec) compareAuthWithTwin() {
	if x.twin == nil || x.diverged {
		return
	}
	a, b := snap(x.live), snap(x.twin)
	if a == nil || b == nil || a.Auth == nil || b.Auth == nil {
		x.res.Probes.Add("hook:auth-not-visible", 1)
		return
	}
	if !bytes.Equal(a.Auth, b.Auth) {
		p, o := x.divergenceProperty()
		x.diverged = true
		x.violate(p, o, fmt.Sprintf("%s,auth@%d", x.cfgSig(), x.model), fmt.Sprintf("authentication path at index %d differs from the twin's", x.model))
	} else if x.restarted || x.ep.Twin == "ff" {
		x.res.Nontrivial["C08"] = true
	}
}
