// Package keysim is the key-lifecycle simulator: it drives real XMSS /
// Dilithium key objects through seeded histories of signatures, index jumps,
// refused calls and crash/rebuild events, next to a never-crashed twin and a
// counter-automaton model, with the entropy source behind crypto/rand.Reader.
package keysim

import (
	"crypto/sha256"
	"encoding/hex"
	"encoding/json"
	"fmt"
)

// Op is one step of a key's history. Histories are explicit data: a replay
// executes exactly these ops, it never regenerates them from a seed.
type Op struct {
	K string `json:"k"` // sign | jump | walk | crash
	// sign: message = MsgBytes(MS, ML); MK varies its shape: "" plain, "nil" (nil
	// slice), "cap" (spare capacity behind the message), "prevsig" (the message is
	// the very slice the key returned as its previous signature)
	ML int    `json:"ml,omitempty"`
	MS uint64 `json:"ms,omitempty"`
	MK string `json:"mk,omitempty"`
	// jump: SetIndex(J) - valid or not is decided by the model, not the op
	J uint32 `json:"j,omitempty"`
	// walk: N consecutive steps, each a sign (Via=sign) or SetIndex(idx+1) (Via=unit)
	N   uint32 `json:"n,omitempty"`
	Via string `json:"via,omitempty"`
	// crash: the live object is dropped and rebuilt from the durable record in
	// secret form Form; the index is restored by Signs dummy signatures from 0
	// followed by SetIndex(Plan[0]), SetIndex(Plan[1]), ... The last restored
	// index is the wallet's reserved index r (>= index at the crash).
	Form  string   `json:"form,omitempty"` // seed | ext | hex | mnemonic
	Signs int      `json:"signs,omitempty"`
	Plan  []uint32 `json:"plan,omitempty"`
}

// Episode is one simulated run: a configuration and a history.
type Episode struct {
	Kind    string `json:"kind"` // xmss | wallet-xmss | wallet-dil | entropy-xmss | entropy-dil
	Profile string `json:"profile,omitempty"`
	Height  uint8  `json:"height,omitempty"`
	Hash    uint8  `json:"hash,omitempty"` // 0 SHA2_256, 1 SHAKE_128, 2 SHAKE_256
	Stub    bool   `json:"stub,omitempty"` // leaf seam: stub leaves instead of WOTS+L-tree
	SeedHex string `json:"seed,omitempty"` // 48-byte key seed (or entropy stream seed)
	Twin    string `json:"twin,omitempty"` // mirror | unit | sign | ff | none
	// Ctor: constructor of the live object in xmss episodes: seed (default) |
	// ext (NewXMSSFromExtendedSeed) | height (NewXMSSFromHeight over the
	// simulated entropy source). The twin is always built by NewXMSSFromSeed.
	Ctor string `json:"ctor,omitempty"`
	Ops     []Op   `json:"ops,omitempty"`
	// Drain: after the ops, walk live object and twin on towards the end of
	// the key's life comparing every authentication path: none | full | tail:<n>
	Drain     string `json:"drain,omitempty"`
	DrainSeed uint64 `json:"drain_seed,omitempty"`
	// wallet / entropy episodes
	Create  string       `json:"create,omitempty"` // seed | entropy
	Entropy *EntropyPlan `json:"entropy,omitempty"`
	NSigs   int          `json:"nsigs,omitempty"`  // signatures observed before the crash
	AtIndex uint32       `json:"at_index,omitempty"` // wallet-xmss: index at which they are taken
	Forms   []string     `json:"forms,omitempty"`  // restore paths exercised
	// Sibling (wallet-xmss): before the wallet's key is created the process builds
	// a key from the SAME seed with another hash function. Companion: after the
	// wallet's key was observed, another wallet is created the same way with other
	// parameters, and the first one is observed again. Neither may influence the
	// wallet's key: its observations are compared with a reference run of the
	// episode without these, in a fresh process.
	Sibling   bool `json:"sibling,omitempty"`
	Companion bool `json:"companion,omitempty"`
	// Traffic (wallet-xmss): the process that restores the wallet first serves
	// some unrelated stateless calls (address checks, verifications incl. one with
	// another Winternitz parameter on an input of this key's height)
	Traffic bool `json:"traffic,omitempty"`
	// ExportLate (wallet-xmss): the secrets are exported only after the key has
	// been used to its last leaf; observations are taken at the start as usual
	ExportLate bool `json:"export_late,omitempty"`
	// Regen (xmss crash ops): after a restart the durable record is re-exported
	// from the rebuilt object, so that the next restart is second-generation
	Regen bool `json:"regen,omitempty"`
}

// EntropyPlan scripts the simulated entropy source behind crypto/rand.Reader.
type EntropyPlan struct {
	StreamSeed uint64 `json:"stream_seed"`
	// Chunks: sizes returned by successive Read calls (0 = transient empty
	// read); when exhausted the reader fills whatever is asked.
	Chunks []int `json:"chunks,omitempty"`
	// ErrAfter >= 0: after that many bytes were delivered in total, Read fails:
	// with a device error, or (EOFKind) with io.EOF - the source ran dry.
	ErrAfter int  `json:"err_after"`
	EOFKind  bool `json:"eof_kind,omitempty"`
	// EOFWithLast: the final bytes are delivered together with io.EOF.
	EOFWithLast bool `json:"eof_with_last,omitempty"`
}

func (e *Episode) JSON() string {
	b, _ := json.Marshal(e)
	return string(b)
}

// Digest identifies (config, history).
func (e *Episode) Digest() string {
	s := sha256.Sum256([]byte(e.JSON()))
	return hex.EncodeToString(s[:8])
}

func (e *Episode) seed48() (s [48]byte, err error) {
	b, err := hex.DecodeString(e.SeedHex)
	if err != nil || len(b) != 48 {
		return s, fmt.Errorf("episode seed must be 48 bytes hex")
	}
	copy(s[:], b)
	return s, nil
}

// OpCount is the number of elementary steps the ops expand to.
func (e *Episode) OpCount() int64 {
	var n int64
	for _, o := range e.Ops {
		if o.K == "walk" {
			n += int64(o.N)
		} else {
			n++
		}
	}
	return n
}
