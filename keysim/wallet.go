package keysim

import (
	"bytes"
	"crypto/sha256"
	"crypto/rand"
	"encoding/hex"
	"errors"
	"fmt"
	"io"
	"strings"

	"github.com/theQRL/go-qrllib/common"
	"github.com/theQRL/go-qrllib/dilithium"
	"github.com/theQRL/go-qrllib/misc"
	"github.com/theQRL/go-qrllib/xmss"

	"verif/core"
)

// simEntropy is the simulated entropy source installed behind the existing
// crypto/rand.Reader seam. Its bytes come from the episode's PRNG stream and
// its misbehaviour from the episode's EntropyPlan.
type simEntropy struct {
	plan      *EntropyPlan
	fixed     []byte // if set, the stream delivers these bytes first
	stream    *core.Rand
	delivered []byte
	call      int
	want      int
	short     int64
	empty     int64
	errs      int64
	eofLast   int64
}

var errSimEntropy = errors.New("simulated entropy source failure")

func (s *simEntropy) Read(p []byte) (int, error) {
	if len(p) == 0 {
		return 0, nil
	}
	if s.plan.ErrAfter >= 0 && len(s.delivered) >= s.plan.ErrAfter {
		s.errs++
		if s.plan.EOFKind {
			return 0, io.EOF
		}
		return 0, errSimEntropy
	}
	n := len(p)
	if s.call < len(s.plan.Chunks) {
		if c := s.plan.Chunks[s.call]; c < n {
			n = c
		}
	}
	s.call++
	if s.plan.ErrAfter >= 0 && len(s.delivered)+n > s.plan.ErrAfter {
		n = s.plan.ErrAfter - len(s.delivered)
	}
	if n == 0 {
		s.empty++
		return 0, nil
	}
	if n < len(p) {
		s.short++
	}
	if len(s.fixed) > 0 {
		if n > len(s.fixed) {
			n = len(s.fixed)
		}
		copy(p[:n], s.fixed[:n])
		s.fixed = s.fixed[n:]
	} else {
		s.stream.Bytes(p[:n])
	}
	s.delivered = append(s.delivered, p[:n]...)
	if s.plan.EOFWithLast && len(s.delivered) >= s.want {
		s.eofLast++
		return n, io.EOF
	}
	return n, nil
}

func withEntropy(plan *EntropyPlan, want int, f func()) *simEntropy {
	s := &simEntropy{plan: plan, stream: core.NewRand(plan.StreamSeed), want: want}
	saved := rand.Reader
	rand.Reader = s
	defer func() { rand.Reader = saved }()
	f()
	return s
}

func (s *simEntropy) record(res *Result) {
	if s.short > 0 {
		res.Faults.Add("entropy-short-read", s.short)
	}
	if s.empty > 0 {
		res.Faults.Add("entropy-empty-read", s.empty)
	}
	if s.errs > 0 {
		res.Faults.Add(fmt.Sprintf("entropy-error@%d", s.plan.ErrAfter), s.errs)
		res.Faults.Add("entropy-error", s.errs)
		if s.plan.EOFKind {
			res.Faults.Add("entropy-ran-dry(EOF)", s.errs)
		}
	}
	if s.eofLast > 0 {
		res.Faults.Add("entropy-eof-with-last-bytes", s.eofLast)
	}
}

type wviol struct {
	ep  *Episode
	res *Result
}

func (w *wviol) add(oracle, sig, detail string) {
	w.res.Violations = append(w.res.Violations, core.Violation{Property: "C09", Oracle: oracle, Where: "wallet", Detail: detail, Signature: oracle + ":" + sig})
}

// ---------------------------------------------------------------- XMSS

type xObs struct {
	o    observation
	sigs [][]byte
}

// takeXObs reads the identity getters and takes the signatures; signFirst
// reverses the order (a getter with a side effect on the key shows as a
// difference between a key that exported before signing and one that did not).
func takeXObs(k *xmss.XMSS, ep *Episode, signFirst bool) (xo xObs, oc outcome) {
	var oc2 outcome
	if !signFirst {
		xo.o, oc2 = observe(k, true)
		if oc2.panicked {
			return xo, oc2
		}
	}
	defer func() {
		if signFirst && !oc.panicked {
			xo.o, oc2 = observe(k, true)
			if oc2.panicked {
				oc = oc2
			}
		}
	}()
	oc = guard(func() {
		if ep.AtIndex > 0 {
			k.SetIndex(ep.AtIndex)
		}
		for i := 0; i < ep.NSigs; i++ {
			s, err := k.Sign(core.MsgBytes(ep.DrainSeed+uint64(i), 24+i))
			if err != nil {
				panic(err)
			}
			xo.sigs = append(xo.sigs, s)
		}
	})
	return
}

// RunWalletXMSS: create -> observe -> export -> crash -> restore by every form.
func RunWalletXMSS(ep *Episode) *Result {
	res := newResult(ep)
	w := &wviol{ep, res}
	if ep.Stub {
		xmss.VerifSetLeafFunc(stubLeaf)
	} else {
		xmss.VerifSetLeafFunc(nil)
	}
	defer xmss.VerifSetLeafFunc(nil)
	cfg := fmt.Sprintf("h=%d,hash=%d,stub=%v,create=%s", ep.Height, ep.Hash, ep.Stub, ep.Create)
	res.Probes.Add(fmt.Sprintf("cell:h=%d,hash=%d,stub=%v", ep.Height, ep.Hash, ep.Stub), 1)
	res.Probes.Add("create:xmss:"+ep.Create, 1)
	hf := xmss.HashFunction(ep.Hash)
	var orig *xmss.XMSS
	var oc outcome
	var ent *simEntropy
	if ep.Sibling && ep.SeedHex != "" {
		// same seed, other hash function, earlier in this process
		sd, _ := ep.seed48()
		other := xmss.SHAKE_128
		if hf == xmss.SHAKE_128 {
			other = xmss.SHAKE_256
		}
		guard(func() {
			sib := xmss.NewXMSSFromSeed(sd, 4, other, common.SHA256_2X)
			sib.GetPK()
			if _, err := sib.Sign([]byte("sibling")); err != nil {
				panic(err)
			}
		})
		res.Probes.Add("wallet:sibling-key-of-the-same-seed-first", 1)
	}
	if ep.Create == "entropy" {
		ent = withEntropy(ep.Entropy, 48, func() {
			oc = guard(func() { orig = xmss.NewXMSSFromHeight(ep.Height, hf) })
		})
		ent.record(res)
		if ep.Entropy.ErrAfter >= 0 && ep.Entropy.ErrAfter < 48 {
			// the source failed before 48 bytes were available
			if oc.panicked {
				res.Probes.Add("entropy-failure:refused", 1)
				res.Nontrivial["C09"] = true
				return res
			}
			res.Probes.Add("entropy-failure:key-returned-anyway", 1)
			if orig == nil {
				return res
			}
			// a key was handed back: it must at least be recoverable
		} else if oc.panicked {
			if ep.Entropy.EOFWithLast {
				res.Probes.Add("entropy-eof-with-last:refused", 1)
				return res
			}
			w.add("create-failed", cfg, "NewXMSSFromHeight panicked although the entropy source delivered 48 bytes: "+oc.pval)
			return res
		}
		res.Steps += int64(ent.call)
	} else {
		seed, err := ep.seed48()
		if err != nil {
			panic(err)
		}
		orig, oc = build(seed, ep.Height, hf)
		if oc.panicked {
			w.add("create-failed", cfg, "NewXMSSFromSeed panicked: "+oc.pval)
			return res
		}
	}
	before, oc := takeXObs(orig, ep, false)
	if oc.panicked {
		w.add("observe-failed", cfg, "original key: "+oc.pval)
		return res
	}
	if before.o.height != ep.Height {
		w.add("height-mismatch", cfg, fmt.Sprintf("GetHeight=%d, created with %d", before.o.height, ep.Height))
	}
	// exporting twice gives the same secrets, and the first export is not disturbed
	if again, oc2 := observe(orig, true); !oc2.panicked {
		if d := before.o.diff(&again, true); d != "" {
			w.add("export-not-stable", cfg+","+d, "a second export of the same key differs from the first in "+d)
		}
	}
	{
		h := sha256.New()
		h.Write(before.o.pk[:])
		h.Write(before.o.addr[:])
		h.Write(before.o.ext[:])
		for _, sg := range before.sigs {
			h.Write(sg)
		}
		res.ObsDigest = hex.EncodeToString(h.Sum(nil)[:12])
	}
	if ep.Companion {
		// a second wallet, created the same way with other parameters, must leave the first alone
		oh, ohf := uint8(4), xmss.HashFunction((int(ep.Hash)+1)%3)
		if ep.Height == 4 {
			oh = 6
		}
		guard(func() {
			if ep.Create == "entropy" {
				withEntropy(&EntropyPlan{StreamSeed: ep.DrainSeed ^ 0xc0, ErrAfter: -1}, 48, func() { xmss.NewXMSSFromHeight(oh, ohf).GetPK() })
			} else {
				var s2 [48]byte
				core.NewRand(ep.DrainSeed ^ 0xc1).Bytes(s2[:])
				xmss.NewXMSSFromSeed(s2, oh, ohf, common.SHA256_2X).GetPK()
			}
		})
		res.Probes.Add("wallet:companion-wallet-created", 1)
		again, oc2 := observe(orig, true)
		if oc2.panicked {
			w.add("observe-failed", cfg+",after-companion", oc2.pval)
			return res
		}
		if d := before.o.diff(&again, true); d != "" {
			w.add("identity-changed-by-another-wallet", cfg+","+d, "creating a second wallet changed what the first one reports: "+d)
			return res
		}
	}
	// durable record: copies only
	durSeed := before.o.seed
	durExt := before.o.ext
	durHex := string(append([]byte(nil), before.o.hexSeed...))
	durMnem := string(append([]byte(nil), before.o.mnem...))
	if ep.ExportLate {
		// the wallet exports its secrets at the very end of the key's life
		leaves := uint32(1) << ep.Height
		oc := guard(func() {
			if orig.GetIndex() < leaves-1 {
				orig.SetIndex(leaves - 1)
			}
			if orig.GetIndex() == leaves-1 {
				if _, err := orig.Sign([]byte("last leaf")); err != nil {
					panic(err)
				}
			}
		})
		late, oc2 := observe(orig, true)
		if oc.panicked || oc2.panicked {
			w.add("observe-failed", cfg+",late", "using the key to its last leaf failed: "+oc.pval+oc2.pval)
			return res
		}
		res.Probes.Add("wallet:export-after-last-leaf", 1)
		durSeed, durExt = late.seed, late.ext
		durHex = string(append([]byte(nil), late.hexSeed...))
		durMnem = string(append([]byte(nil), late.mnem...))
	}
	orig = nil // crash

	for fi, form := range ep.Forms {
		res.Steps++
		res.Faults.Add("crash-restart:form="+form, 1)
		if ep.Traffic {
			backgroundTraffic(ep, before.o.pk, fi)
			res.Probes.Add("wallet:restore-after-unrelated-calls", 1)
		}
		var k *xmss.XMSS
		oc := guard(func() {
			switch form {
			case "seed":
				k = xmss.NewXMSSFromSeed(durSeed, ep.Height, hf, common.SHA256_2X)
			case "ext":
				k = xmss.NewXMSSFromExtendedSeed(durExt)
			case "hex":
				b, err := hex.DecodeString(strings.TrimPrefix(durHex, "0x"))
				if err != nil || len(b) != common.ExtendedSeedSize {
					panic(fmt.Sprintf("hex seed %q does not decode to 51 bytes", durHex))
				}
				var e [common.ExtendedSeedSize]uint8
				copy(e[:], b)
				k = xmss.NewXMSSFromExtendedSeed(e)
			case "mnemonic":
				k = xmss.NewXMSSFromExtendedSeed(misc.MnemonicToExtendedSeedBin(durMnem))
			default:
				panic("unknown form " + form)
			}
		})
		if oc.panicked || k == nil {
			w.add("restore-failed", cfg+",form="+form, "rebuilding from the exported secret failed: "+oc.pval)
			continue
		}
		after, oc := takeXObs(k, ep, fi%2 == 1)
		if oc.panicked {
			w.add("restore-failed", cfg+",form="+form, "restored key unusable: "+oc.pval)
			continue
		}
		if d := before.o.diff(&after.o, true); d != "" {
			w.add("restored-identity", cfg+",form="+form+","+d, "restored key differs from the original in "+d)
			continue
		}
		same := len(before.sigs) == len(after.sigs)
		for i := 0; same && i < len(before.sigs); i++ {
			if !bytes.Equal(before.sigs[i], after.sigs[i]) {
				same = false
				w.add("restored-signature", cfg+",form="+form, fmt.Sprintf("signature %d at index %d differs (%s)", i, ep.AtIndex+uint32(i), sigPart(before.sigs[i], after.sigs[i])))
			}
		}
		if same && len(before.sigs) > 0 {
			res.Nontrivial["C09"] = true
		}
	}
	return res
}

// backgroundTraffic: unrelated stateless calls a wallet process may well serve
// before it restores a key. Their results are not judged here (that is C15's
// business); they must not influence the recovery that follows.
func backgroundTraffic(ep *Episode, pk [xmss.ExtendedPKSize]uint8, round int) {
	r := core.NewRand(ep.DrainSeed ^ uint64(round)*0x9e37)
	guard(func() {
		var a [common.AddressSize]uint8
		r.Bytes(a[:])
		xmss.IsValidXMSSAddress(a)
		a[0], a[1] = 0x01, byte(r.Intn(16))
		xmss.IsValidXMSSAddress(a)
	})
	// a verification for a key of another height first
	guard(func() {
		oh := uint8(4)
		if ep.Height == 4 {
			oh = 6
		}
		var opk [xmss.ExtendedPKSize]uint8
		r.Bytes(opk[:])
		d := xmss.NewQRLDescriptor(oh, xmss.HashFunction(r.Intn(3)), common.XMSSSig, common.SHA256_2X).GetBytes()
		copy(opk[:3], d[:])
		sig := make([]byte, 4+32+67*32+int(oh)*32)
		r.Bytes(sig)
		sig[0], sig[1], sig[2] = 0, 0, 0
		xmss.Verify([]byte("other key"), sig, opk)
	})
	for _, wk := range [][2]uint32{{4, 133 * 32}, {256, 34 * 32}, {16, 67 * 32}} {
		if r.Chance(0.5) {
			continue
		}
		sig := make([]byte, 4+32+int(wk[1])+int(ep.Height)*32)
		r.Bytes(sig)
		sig[0], sig[1], sig[2] = 0, 0, 0
		guard(func() { xmss.VerifyWithCustomWOTSParamW([]byte("unrelated"), sig, pk, wk[0]) })
	}
}

// ---------------------------------------------------------------- Dilithium

type dObs struct {
	pk    [dilithium.CryptoPublicKeyBytes]uint8
	addr  [common.AddressSize]uint8
	sigs  [][dilithium.CryptoBytes]uint8
	seals [][]byte
}

func takeDObs(d *dilithium.Dilithium, ep *Episode) (o dObs, oc outcome) {
	oc = guard(func() {
		o.pk = d.GetPK()
		o.addr = d.GetAddress()
		for i := 0; i < ep.NSigs; i++ {
			m := core.MsgBytes(ep.DrainSeed+uint64(i), []int{0, 7, 32, 33, 200, 1500}[i%6])
			s, err := d.Sign(m)
			if err != nil {
				panic(err)
			}
			o.sigs = append(o.sigs, s)
			sm, err := d.Seal(m)
			if err != nil {
				panic(err)
			}
			o.seals = append(o.seals, sm)
		}
	})
	return
}

func RunWalletDil(ep *Episode) *Result {
	res := newResult(ep)
	w := &wviol{ep, res}
	cfg := "dilithium,create=" + ep.Create
	res.Probes.Add("create:dilithium:"+ep.Create, 1)
	var orig *dilithium.Dilithium
	var err error
	var oc outcome
	if ep.Create == "entropy" {
		ent := withEntropy(ep.Entropy, 48, func() {
			oc = guard(func() { orig, err = dilithium.New() })
		})
		ent.record(res)
		res.Steps += int64(ent.call)
		if ep.Entropy.ErrAfter >= 0 && ep.Entropy.ErrAfter < 48 {
			if oc.panicked || err != nil || orig == nil {
				res.Probes.Add("entropy-failure:refused", 1)
				res.Nontrivial["C09"] = true
				return res
			}
			res.Probes.Add("entropy-failure:key-returned-anyway", 1)
		} else if oc.panicked || err != nil || orig == nil {
			if ep.Entropy.EOFWithLast {
				res.Probes.Add("entropy-eof-with-last:refused", 1)
				return res
			}
			w.add("create-failed", cfg, fmt.Sprintf("dilithium.New failed although the entropy source delivered 48 bytes: panic=%q err=%v", oc.pval, err))
			return res
		}
	} else {
		seed, e2 := ep.seed48()
		if e2 != nil {
			panic(e2)
		}
		oc = guard(func() { orig, err = dilithium.NewDilithiumFromSeed(seed) })
		if oc.panicked || err != nil || orig == nil {
			w.add("create-failed", cfg, fmt.Sprintf("NewDilithiumFromSeed failed: panic=%q err=%v", oc.pval, err))
			return res
		}
	}
	before, oc := takeDObs(orig, ep)
	if oc.panicked {
		w.add("observe-failed", cfg, "original key: "+oc.pval)
		return res
	}
	var durSeed [48]byte
	var durHex, durMnem string
	oc = guard(func() {
		durSeed = orig.GetSeed()
		durHex = string(append([]byte(nil), orig.GetHexSeed()...))
		durMnem = string(append([]byte(nil), orig.GetMnemonic()...))
	})
	if oc.panicked {
		w.add("export-failed", cfg, oc.pval)
		return res
	}
	// the strings exactly as exported (no copy): another key's export in the same
	// process must not rewrite them while the wallet still holds them
	heldHex, heldMnem := orig.GetHexSeed(), orig.GetMnemonic()
	guard(func() {
		var s2 [48]byte
		core.NewRand(ep.DrainSeed ^ 0xd2).Bytes(s2[:])
		if o2, err := dilithium.NewDilithiumFromSeed(s2); err == nil {
			_ = o2.GetHexSeed() + o2.GetMnemonic()
		}
	})
	if heldHex != durHex || heldMnem != durMnem {
		w.add("exported-secret-rewritten", cfg, "a hex seed / mnemonic string the wallet still held was rewritten by another key's export")
	}
	orig = nil // crash

	for _, form := range ep.Forms {
		res.Steps++
		res.Faults.Add("crash-restart:form=dil-"+form, 1)
		var k *dilithium.Dilithium
		var err error
		oc := guard(func() {
			switch form {
			case "seed":
				k, err = dilithium.NewDilithiumFromSeed(durSeed)
			case "hex":
				k, err = dilithium.NewDilithiumFromHexSeed(strings.TrimPrefix(durHex, "0x"))
			case "mnemonic":
				k, err = dilithium.NewDilithiumFromMnemonic(durMnem)
			default:
				panic("unknown form " + form)
			}
		})
		if oc.panicked || err != nil || k == nil {
			w.add("restore-failed", cfg+",form="+form, fmt.Sprintf("rebuilding from the exported secret failed: panic=%q err=%v", oc.pval, err))
			continue
		}
		after, oc := takeDObs(k, ep)
		if oc.panicked {
			w.add("restore-failed", cfg+",form="+form, "restored key unusable: "+oc.pval)
			continue
		}
		switch {
		case before.pk != after.pk:
			w.add("restored-identity", cfg+",form="+form+",GetPK", "restored public key differs")
			continue
		case before.addr != after.addr:
			w.add("restored-identity", cfg+",form="+form+",GetAddress", "restored address differs")
			continue
		}
		same := true
		for i := range before.sigs {
			if before.sigs[i] != after.sigs[i] {
				same = false
				w.add("restored-signature", cfg+",form="+form+",Sign", fmt.Sprintf("detached signature %d differs", i))
				break
			}
			if !bytes.Equal(before.seals[i], after.seals[i]) {
				same = false
				w.add("restored-signature", cfg+",form="+form+",Seal", fmt.Sprintf("sealed message %d differs", i))
				break
			}
		}
		if same && len(before.sigs) > 0 {
			res.Nontrivial["C09"] = true
		}
	}
	return res
}

// ---------------------------------------------------------------- batch

func entropyPlan(r *core.Rand, mode string, k int) *EntropyPlan {
	p := &EntropyPlan{StreamSeed: r.Uint64(), ErrAfter: -1}
	switch mode {
	case "clean":
	case "short":
		if r.Chance(0.15) { // 48 one-byte reads
			for i := 0; i < 48; i++ {
				p.Chunks = append(p.Chunks, 1)
			}
			break
		}
		for tot := 0; tot < 48; {
			c := r.Range(1, 47)
			if r.Chance(0.15) {
				c = 0 // transient empty read
			}
			p.Chunks = append(p.Chunks, c)
			tot += c
		}
	case "error", "eof":
		p.ErrAfter = k
		p.EOFKind = mode == "eof"
		if r.Chance(0.5) {
			for tot := 0; tot < 48; {
				c := r.Range(1, 30)
				p.Chunks = append(p.Chunks, c)
				tot += c
			}
		}
	case "eof-last":
		p.EOFWithLast = true
		if r.Chance(0.5) {
			p.Chunks = []int{r.Range(1, 47)}
		}
	}
	return p
}

func newWalletBatch(b *Batch, fr *core.Rand, thorough bool) {
	xForms := []string{"seed", "ext", "hex", "mnemonic"}
	dForms := []string{"seed", "hex", "mnemonic"}
	// configuration matrix: every (height, hash) cell
	realH := []uint8{4, 6, 8}
	stubH := []uint8{4, 6, 8, 10, 12, 14, 16}
	if thorough {
		realH = []uint8{4, 6, 8, 10}
		stubH = []uint8{4, 6, 8, 10, 12, 14, 16, 18, 20}
	}
	mk := func(r *core.Rand, h, hf uint8, stub bool, create string, plan *EntropyPlan) *Episode {
		ep := &Episode{Kind: "wallet-xmss", Profile: "c09-matrix", Height: h, Hash: hf, Stub: stub, SeedHex: seedHex(r), Create: create, Entropy: plan, NSigs: 2, Forms: xForms, DrainSeed: r.Uint64()}
		leaves := uint32(1) << h
		if r.Chance(0.4) {
			ep.AtIndex = r.Uint32n(minU(leaves-2, 40))
		}
		if h <= 10 && r.Chance(0.2) {
			ep.ExportLate = true
		}
		ep.Traffic = r.Chance(0.3)
		ep.Sibling = create == "seed" && r.Chance(0.25)
		ep.Companion = r.Chance(0.25)
		if stub && leaves >= 1024 && r.Chance(0.3) { // signatures far into the key's life
			ep.AtIndex = r.Uint32n(minU(leaves-4, 5000))
		}
		return ep
	}
	for i := len(stubH) - 1; i >= 0; i-- {
		for hf := uint8(0); hf < 3; hf++ {
			b.Fixed = append(b.Fixed, mk(fr, stubH[i], hf, true, "seed", nil))
		}
	}
	for i := len(realH) - 1; i >= 0; i-- {
		for hf := uint8(0); hf < 3; hf++ {
			b.Fixed = append(b.Fixed, mk(fr, realH[i], hf, false, "seed", nil))
		}
	}
	// entropy error swept over every k in [0,48) for both schemes
	for k := 0; k < 48; k++ {
		for _, mode := range []string{"error", "eof"} {
			b.Fixed = append(b.Fixed, mk(fr, 4, uint8(k%3), true, "entropy", entropyPlan(fr, mode, k)))
			b.Fixed = append(b.Fixed, &Episode{Kind: "wallet-dil", Profile: "c09-entropy", Create: "entropy", Entropy: entropyPlan(fr, mode, k), NSigs: 1, Forms: dForms, DrainSeed: fr.Uint64()})
		}
	}
	// seeds that begin with the wallet's own 3-byte descriptor
	for _, h := range []uint8{4, 6, 8, 10} {
		for hf := uint8(0); hf < 3; hf++ {
			ep := mk(fr, h, hf, true, "seed", nil)
			ep.Profile = "c09-descriptor-in-seed"
			sd, _ := hex.DecodeString(ep.SeedHex)
			sd[0], sd[1], sd[2] = hf, h>>1, 0 // signature type XMSS (0) << 4 | hash ; address format 0 << 4 | height/2
			ep.SeedHex = hex.EncodeToString(sd)
			b.Fixed = append(b.Fixed, ep)
		}
	}
	// Dilithium seeds that begin (or end) with a 3-byte descriptor the library
	// knows: its own (signature type Dilithium = 1 in the high nibble, then
	// 00 00) and XMSS ones; an import route that mistakes such a plain seed
	// for descriptor || seed shows only on these (2^-24 for random seeds)
	for _, d := range [][3]byte{{0x10, 0, 0}, {0x10, 0x10, 0}, {0x01, 0, 0}, {0x00, 0x02, 0}, {0x01, 0x05, 0}, {0x02, 0x0f, 0}, {0x00, 0x00, 0x00}} {
		for _, tail := range []bool{false, true} {
			sd, _ := hex.DecodeString(seedHex(fr))
			if tail {
				sd[45], sd[46], sd[47] = d[0], d[1], d[2]
			} else {
				sd[0], sd[1], sd[2] = d[0], d[1], d[2]
			}
			b.Fixed = append(b.Fixed, &Episode{Kind: "wallet-dil", Profile: "c09-descriptor-in-seed", Create: "seed", SeedHex: hex.EncodeToString(sd), NSigs: 1, Forms: dForms, DrainSeed: fr.Uint64()})
		}
	}
	// seeds with extreme byte patterns
	for i, pat := range [][2]byte{{0x00, 0x00}, {0xff, 0xff}, {0xff, 0x00}, {0x00, 0xff}, {0x0f, 0xf0}, {0x20, 0x20}, {0x11, 0x11}, {0x01, 0x01}, {0x07, 0x70}, {0x99, 0x12}, {0x08, 0x90}, {0xaa, 0xaa}} {
		sd := make([]byte, 48)
		for j := range sd {
			sd[j] = pat[1]
		}
		sd[0], sd[47] = pat[0], pat[0]
		b.Fixed = append(b.Fixed, &Episode{Kind: "wallet-dil", Profile: "c09-patterns", Create: "seed", SeedHex: hex.EncodeToString(sd), NSigs: 2, Forms: dForms, DrainSeed: fr.Uint64()})
		b.Fixed = append(b.Fixed, &Episode{Kind: "wallet-xmss", Profile: "c09-patterns", Height: []uint8{4, 6, 8, 10, 12, 14}[i%6], Hash: uint8(i % 3), Stub: true, SeedHex: hex.EncodeToString(sd), Create: "seed", NSigs: 3, Forms: xForms, DrainSeed: fr.Uint64()})
	}
	if thorough {
		// tall trees: the height nibble of the descriptor above 16
		for i, h := range []uint8{22, 24, 26} {
			b.Fixed = append(b.Fixed, &Episode{Kind: "wallet-xmss", Profile: "c09-tall", Height: h, Hash: uint8(i % 3), Stub: true, SeedHex: seedHex(fr), Create: "seed", NSigs: 2, Forms: []string{"mnemonic", "hex"}, DrainSeed: fr.Uint64()})
		}
	}
	// mnemonic word coverage: every 12-bit word index occurs in a recovered
	// secret, for the 48-byte (Dilithium) and the 51-byte (XMSS) codec paths
	wordSeed := func(first int, nwords int) []byte {
		out := make([]byte, nwords*3/2)
		for w := 0; w < nwords; w++ {
			v := (first + w) % 4096
			bit := w * 12
			if bit%8 == 0 {
				out[bit/8] = byte(v >> 4)
				out[bit/8+1] |= byte(v&0x0f) << 4
			} else {
				out[bit/8] |= byte(v >> 8)
				out[bit/8+1] = byte(v)
			}
		}
		return out
	}
	for first := 0; first < 4096; first += 32 {
		b.Fixed = append(b.Fixed, &Episode{Kind: "wallet-dil", Profile: "c09-words", Create: "seed", SeedHex: hex.EncodeToString(wordSeed(first, 32)), NSigs: 1, Forms: dForms, DrainSeed: fr.Uint64()})
	}
	for first := 0; first < 4096; first += 30 {
		// the XMSS mnemonic covers descriptor || seed: words 2.. come from the seed
		// (the seed starts at byte 3 = bit 24 = word 2); a shifted seed covers them
		ws := wordSeed(first, 32)
		ep := &Episode{Kind: "wallet-xmss", Profile: "c09-words", Height: 4, Hash: uint8(first % 3), Stub: true, SeedHex: hex.EncodeToString(ws), Create: "seed", NSigs: 1, Forms: []string{"mnemonic", "ext"}, DrainSeed: fr.Uint64()}
		b.Fixed = append(b.Fixed, ep)
	}
	b.Random = 260
	if thorough {
		b.Random = 5000
	}
	b.gen = func(r *core.Rand, e int) *Episode {
		mode := []string{"clean", "short", "short", "eof-last"}[r.Intn(4)]
		if r.Chance(0.45) { // Dilithium
			ep := &Episode{Kind: "wallet-dil", Profile: "c09-rand", NSigs: r.Range(1, 4), Forms: dForms, DrainSeed: r.Uint64()}
			if r.Chance(0.5) {
				ep.Create = "entropy"
				ep.Entropy = entropyPlan(r, mode, 0)
			} else {
				ep.Create = "seed"
				ep.SeedHex = seedHex(r)
			}
			return ep
		}
		var ep *Episode
		if r.Chance(0.25) {
			hs := []uint8{4, 4, 6, 6, 8}
			if thorough {
				hs = []uint8{4, 6, 8, 8, 10}
			}
			ep = mk(r, pickHeight(r, hs), uint8(r.Intn(3)), false, "seed", nil)
		} else {
			hs := []uint8{4, 6, 8, 10, 12, 14}
			if thorough {
				hs = []uint8{4, 6, 8, 10, 12, 14, 16, 18}
			}
			ep = mk(r, pickHeight(r, hs), uint8(r.Intn(3)), true, "seed", nil)
		}
		ep.Profile = "c09-rand"
		ep.NSigs = r.Range(1, 3)
		if r.Chance(0.5) {
			ep.Create = "entropy"
			ep.Entropy = entropyPlan(r, mode, 0)
			ep.SeedHex = ""
		}
		return ep
	}
}
