package keysim

import (
	"bufio"
	"io"
	"encoding/json"
	"fmt"
	"os"
	"os/exec"
	"path/filepath"
	"sort"
	"strconv"
	"strings"
	"sync"
	"time"

	"verif/core"
)

// Run executes one episode (any kind) in this process.
func Run(ep *Episode) *Result {
	switch ep.Kind {
	case "xmss":
		return RunXMSS(ep)
	case "wallet-xmss":
		return RunWalletXMSS(ep)
	case "wallet-dil":
		return RunWalletDil(ep)
	}
	panic("unknown episode kind " + ep.Kind)
}

// ReplayFile is what a violation is reported as. Episodes are executed in
// order in one fresh process; the violation is judged on the last one (the
// others are predecessors it was found to need).
type ReplayFile struct {
	Property        string          `json:"property"`
	Oracle          string          `json:"oracle"`
	Engine          string          `json:"engine"`
	Tier            string          `json:"tier"`
	Seed            uint64          `json:"seed"`
	EpisodeIndex    int             `json:"episode_index"`
	TreeHash        string          `json:"tree_hash"`
	Minimised       bool            `json:"minimised"`
	Episodes        []*Episode      `json:"episodes"`
	FirstDivergence *core.Violation `json:"first_divergence"`
}

type workerLine struct {
	E    int     `json:"e"`
	Ms   int64   `json:"ms,omitempty"` // wall time of the episode (cost accounting only, never a decision)
	Prof string  `json:"prof,omitempty"`
	Res  *Result `json:"res,omitempty"`
	Done bool    `json:"done,omitempty"`
	Begin bool   `json:"begin,omitempty"`
	N    int     `json:"n,omitempty"`
	Skip int     `json:"skipped,omitempty"`
}

// Worker runs episodes e = w, w+nw, w+2nw, ... of the batch and prints one
// JSON line per episode. deadline (unix seconds, 0 = none) only decides at
// which episode index the worker stops; it never influences an episode.
func Worker(prop, tier string, seed uint64, w, nw int, deadline int64, from int) {
	b := NewBatch(prop, tier, seed)
	out := bufio.NewWriter(os.Stdout)
	defer out.Flush()
	enc := json.NewEncoder(out)
	n, skipped := 0, 0
	for e := w; e < b.Len(); e += nw {
		if e < from {
			continue
		}
		if deadline > 0 && time.Now().Unix() >= deadline {
			skipped++
			continue
		}
		ep := b.At(e)
		enc.Encode(workerLine{E: e, Begin: true})
		out.Flush()
		t0 := time.Now()
		res := Run(ep)
		enc.Encode(workerLine{E: e, Res: res, Ms: time.Since(t0).Milliseconds(), Prof: fmt.Sprintf("%s/stub=%v", ep.Profile+ep.Kind[:0], ep.Stub)})
		out.Flush()
		n++
	}
	enc.Encode(workerLine{Done: true, N: n, Skip: skipped})
}

// replayOnce runs the given episodes in a fresh process and returns the
// violations of the last one.
// ReplayFresh re-executes episodes in a fresh process (used by `./check replay`).
func ReplayFresh(self string, eps []*Episode) ([]core.Violation, error) {
	return replayOnce(self, eps, 6*time.Hour)
}

const deadlockText = "all goroutines are asleep - deadlock!"

// replayOnce runs the given episodes in a fresh process and returns the
// violations of the last one. A library call that blocks forever in this
// single-goroutine process is reported by the Go runtime itself ("all
// goroutines are asleep - deadlock!"): deterministic, not a timeout. It is
// turned into violations here, attributed from the operation trace.
func replayOnce(self string, eps []*Episode, timeout time.Duration) ([]core.Violation, error) {
	f, err := os.CreateTemp("", "keysim-replay-*.json")
	if err != nil {
		return nil, err
	}
	defer os.Remove(f.Name())
	json.NewEncoder(f).Encode(&ReplayFile{Episodes: eps})
	f.Close()
	cmd := exec.Command(self, "replay-raw", f.Name())
	var errb strings.Builder
	cmd.Stderr = &errb
	cmd.Env = append(os.Environ(), "KEYSIM_TRACE=1")
	outp, err := runWithTimeout(cmd, timeout)
	if strings.Contains(errb.String(), deadlockText) {
		return deadlockViolations(eps[len(eps)-1], errb.String()), nil
	}
	if err != nil {
		return nil, err
	}
	var res Result
	if err := json.Unmarshal(outp, &res); err != nil {
		return nil, fmt.Errorf("replay output: %v", err)
	}
	// the process-history oracle needs two processes: this one ran the episodes
	// as given; the reference is the last episode alone, without its surroundings
	if last := eps[len(eps)-1]; res.ObsDigest != "" && strings.HasPrefix(last.Kind, "wallet-xmss") {
		if d, err := obsDigestFresh(self, referenceEpisode(last)); err == nil && d != "" && d != res.ObsDigest {
			res.Violations = append(res.Violations, core.Violation{Property: "C09", Oracle: "key-depends-on-process-history", Where: "wallet", Detail: "observation digest " + res.ObsDigest + " here, " + d + " in a fresh process that does nothing else", Signature: "key-depends-on-process-history"})
		}
	}
	return res.Violations, nil
}

// deadlockViolations attributes a call that never returned. C02's automaton
// has every operation return (emit or refuse), so it is always a C02
// deviation; it is C01's too when the blocked call is a valid Sign/SetIndex of a
// history without refused calls (C01 quantifies over those histories only).
func deadlockViolations(ep *Episode, stderr string) []core.Violation {
	k := -1
	for _, l := range strings.Split(stderr, "\n") {
		if strings.HasPrefix(l, "KEYSIM-TRACE op=") {
			if n, err := strconv.Atoi(strings.TrimPrefix(l, "KEYSIM-TRACE op=")); err == nil {
				k = n
			}
		}
	}
	where := fmt.Sprintf("op%d", k)
	if ep.Kind != "xmss" || k < 0 {
		return []core.Violation{{Property: "C09", Oracle: "operation-never-returns", Where: where, Detail: "a library call blocked forever (Go runtime: " + deadlockText + ")", Signature: "operation-never-returns:" + ep.Kind}}
	}
	refusedBefore, valid, kind := modelScan(ep, k)
	det := fmt.Sprintf("%s at op %d never returned (Go runtime: %s); refused call earlier in the history: %v", kind, k, deadlockText, refusedBefore)
	vs := []core.Violation{{Property: "C02", Oracle: "operation-never-returns", Where: where, Detail: det, Signature: fmt.Sprintf("operation-never-returns:%s,after-refusal=%v", kind, refusedBefore)}}
	if valid && !refusedBefore {
		vs = append(vs, core.Violation{Property: "C01", Oracle: "operation-never-returns", Where: where, Detail: det, Signature: "operation-never-returns:" + kind})
	}
	return vs
}

// modelScan follows the counter automaton over ops[0..k) and tells whether a
// refused operation occurred before op k, whether op k itself is valid, and its kind.
func modelScan(ep *Episode, k int) (refusedBefore, valid bool, kind string) {
	leaves := uint32(1) << ep.Height
	idx := uint32(0)
	step := func(op *Op) bool { // returns validity, advances the model
		switch op.K {
		case "sign":
			if idx < leaves {
				idx++
				return true
			}
			return false
		case "jump":
			if op.J >= idx && op.J < leaves {
				idx = op.J
				return true
			}
			return false
		case "walk":
			ok := true
			for s := uint32(0); s < op.N; s++ {
				if idx < leaves-1 || (op.Via != "unit" && idx < leaves) {
					idx++
				} else {
					ok = false
				}
			}
			return ok
		case "crash":
			if len(op.Plan) > 0 {
				idx = op.Plan[len(op.Plan)-1]
			} else {
				idx = uint32(op.Signs)
			}
			return true
		case "sibling", "other":
			return true
		}
		return true
	}
	for i := 0; i < k && i < len(ep.Ops); i++ {
		if !step(&ep.Ops[i]) {
			refusedBefore = true
		}
	}
	if k < len(ep.Ops) {
		kind = ep.Ops[k].K
		valid = step(&ep.Ops[k])
	} else {
		kind, valid = "drain", true
	}
	return
}

func runWithTimeout(cmd *exec.Cmd, timeout time.Duration) ([]byte, error) {
	var buf strings.Builder
	cmd.Stdout = &buf
	if err := cmd.Start(); err != nil {
		return nil, err
	}
	done := make(chan error, 1)
	go func() { done <- cmd.Wait() }()
	select {
	case err := <-done:
		return []byte(buf.String()), err
	case <-time.After(timeout):
		cmd.Process.Kill()
		<-done
		return nil, fmt.Errorf("timeout after %v", timeout)
	}
}

// ReplayRaw is the fresh-process side of replayOnce.
func ReplayRaw(path string) error {
	b, err := os.ReadFile(path)
	if err != nil {
		return err
	}
	var rf ReplayFile
	if err := json.Unmarshal(b, &rf); err != nil {
		return err
	}
	var res *Result
	for _, ep := range rf.Episodes {
		res = Run(ep)
	}
	return json.NewEncoder(os.Stdout).Encode(res)
}

func hasViolation(vs []core.Violation, prop, oracle string) *core.Violation {
	for i := range vs {
		if vs[i].Property == prop && vs[i].Oracle == oracle {
			return &vs[i]
		}
	}
	return nil
}

// minimise shrinks the last episode of eps while the same oracle of the same
// property keeps failing in a fresh process.
func minimise(self string, eps []*Episode, prop, oracle string, budget time.Duration) ([]*Episode, bool) {
	start := time.Now()
	ok := func() bool { return time.Since(start) < budget }
	fails := func(cand []*Episode) bool {
		vs, err := replayOnce(self, cand, 3*time.Minute)
		return err == nil && hasViolation(vs, prop, oracle) != nil
	}
	changed := false
	// 1. predecessors
	if len(eps) > 1 && fails(eps[len(eps)-1:]) {
		eps = eps[len(eps)-1:]
		changed = true
	}
	last := *eps[len(eps)-1]
	with := func(e *Episode) []*Episode {
		return append(append([]*Episode(nil), eps[:len(eps)-1]...), e)
	}
	try := func(mut func(e *Episode)) bool {
		if !ok() {
			return false
		}
		c := last
		c.Ops = append([]Op(nil), last.Ops...)
		mut(&c)
		if c.JSON() == last.JSON() {
			return false
		}
		if fails(with(&c)) {
			last = c
			changed = true
			return true
		}
		return false
	}
	if last.Kind == "xmss" {
		// 2. no drain / shorter drain, simpler twin
		if !try(func(e *Episode) { e.Drain = "none" }) {
			try(func(e *Episode) { e.Drain = "tail:0" })
		}
		try(func(e *Episode) { e.Twin = "none" })
		try(func(e *Episode) {
			if e.Twin != "none" {
				e.Twin = "mirror"
			}
		})
		// 3. drop ops
		n := len(last.Ops)
		if n > 1 {
			base := last
			keep := core.DDMin(n, ok, func(keep []bool) bool {
				c := base
				c.Ops = nil
				for i, k := range keep {
					if k {
						c.Ops = append(c.Ops, base.Ops[i])
					}
				}
				return fails(with(&c))
			})
			var ops []Op
			for i, k := range keep {
				if k {
					ops = append(ops, base.Ops[i])
				}
			}
			if len(ops) < n {
				last.Ops = ops
				changed = true
			}
		}
		// 4. lower the height (ops stay as they are: the model decides which
		// of them are valid at the new height)
		for _, hh := range []uint8{4, 6, 8, 10, 12} {
			if hh >= last.Height {
				break
			}
			hh := hh
			if try(func(e *Episode) { e.Height = hh }) {
				break
			}
		}
		// 5. shrink walks and messages
		for i := range last.Ops {
			i := i
			for last.Ops[i].K == "walk" && last.Ops[i].N > 1 && try(func(e *Episode) { e.Ops[i].N /= 2 }) {
			}
			if last.Ops[i].K == "sign" && last.Ops[i].ML > 1 {
				try(func(e *Episode) { e.Ops[i].ML = 1 })
			}
			if last.Ops[i].K == "crash" {
				try(func(e *Episode) {
					if len(e.Ops[i].Plan) > 1 {
						e.Ops[i].Plan = e.Ops[i].Plan[len(e.Ops[i].Plan)-1:]
						e.Ops[i].Signs = 0
					}
				})
				try(func(e *Episode) { e.Ops[i].Form = "seed" })
			}
		}
	} else {
		// wallet episodes: fewer forms, fewer signatures
		for len(last.Forms) > 1 {
			shr := false
			for i := range last.Forms {
				i := i
				if try(func(e *Episode) {
					e.Forms = append(append([]string(nil), last.Forms[:i]...), last.Forms[i+1:]...)
				}) {
					shr = true
					break
				}
			}
			if !shr {
				break
			}
		}
		try(func(e *Episode) { e.NSigs = 1 })
		try(func(e *Episode) { e.AtIndex = 0 })
	}
	return with(&last), changed
}

// CheckConfig drives one check invocation.
type CheckConfig struct {
	Prop, Tier  string
	Seed        uint64
	Workers     int
	Self        string // path of this binary (for workers and fresh-process replays)
	Root        string // /verif
	TreeHash    string
	BudgetS     int // wall-clock cap for the random part (0 = none)
	WatchdogS   int
	EpisodeLimitS int
	MaxReported int
}

type agg struct {
	evals      int64
	steps      int64
	faults     core.Counter
	probes     core.Counter
	digests    map[string]bool // distinct non-trivial
	allDigests map[string]bool
	viol       []found
	others     core.Counter
	dead       int
	unconf     int
	skipped    int
	byProfile  core.Counter
	cpuMs      core.Counter
	obs        map[int]string // wallet episodes: observation digest as seen in the worker
	refChecked int
	lost       []string // episodes whose worker died or timed out
	deadlocks  int      // episodes in which a library call blocked forever
}
type found struct {
	e int
	v core.Violation
}

// Check runs the batch over worker processes, confirms, minimises and reports.
// Exit status: 0 held, 1 violation, 2 inconclusive (build/watchdog/harness).
func Check(c CheckConfig) int {
	start := time.Now()
	fmt.Printf("keysim: property=%s tier=%s VERIF_SEED=%d workers=%d tree=%s\n", c.Prop, c.Tier, c.Seed, c.Workers, c.TreeHash)
	b := NewBatch(c.Prop, c.Tier, c.Seed)
	a := &agg{faults: core.Counter{}, probes: core.Counter{}, digests: map[string]bool{}, allDigests: map[string]bool{}, others: core.Counter{}, byProfile: core.Counter{}, cpuMs: core.Counter{}, obs: map[int]string{}}
	var mu sync.Mutex
	var wg sync.WaitGroup
	deadline := int64(0)
	if c.BudgetS > 0 {
		deadline = time.Now().Unix() + int64(c.BudgetS)
	}
	failed := make([]error, c.Workers)
	for w := 0; w < c.Workers; w++ {
		wg.Add(1)
		go func(w int) {
			defer wg.Done()
			// A worker that dies or exceeds the per-episode limit loses only the
			// episode it was in: it is restarted behind that episode, so that
			// the rest of the batch still runs (and can still find violations).
			from := 0
			for restarts := 0; ; restarts++ {
				cmd := exec.Command(c.Self, "worker", c.Prop, c.Tier, strconv.FormatUint(c.Seed, 10), strconv.Itoa(w), strconv.Itoa(c.Workers), strconv.FormatInt(deadline, 10), strconv.Itoa(from))
				var errb strings.Builder
				cmd.Stderr = &errb
				cmd.Env = append(os.Environ(), "GOMAXPROCS=2")
				stdout, err := cmd.StdoutPipe()
				if err != nil || cmd.Start() != nil {
					failed[w] = fmt.Errorf("worker %d: cannot start: %v", w, err)
					return
				}
				var tmu sync.Mutex
				begun := time.Now()
				stop := make(chan struct{})
				go func() { // per-episode watchdog (wall-clock; only ever leads to exit 2)
					for {
						select {
						case <-stop:
							return
						case <-time.After(time.Second):
							tmu.Lock()
							late := time.Since(begun) > time.Duration(c.EpisodeLimitS)*time.Second
							tmu.Unlock()
							if late {
								cmd.Process.Kill()
								return
							}
						}
					}
				}()
				sc := bufio.NewScanner(stdout)
				sc.Buffer(make([]byte, 1<<20), 1<<28)
				done := false
				cur := -1
				for sc.Scan() {
					var l workerLine
					if err := json.Unmarshal(sc.Bytes(), &l); err != nil {
						continue
					}
					if l.Begin {
						cur = l.E
						tmu.Lock()
						begun = time.Now()
						tmu.Unlock()
						continue
					}
					if l.Done {
						done = true
						mu.Lock()
						a.skipped += l.Skip
						mu.Unlock()
						continue
					}
					cur = -1
					mu.Lock()
					a.add(c.Prop, l.E, l.Res)
					a.byProfile.Add(l.Prof, 1)
					a.cpuMs.Add(l.Prof, l.Ms)
					mu.Unlock()
				}
				err = cmd.Wait()
				close(stop)
				if done {
					return
				}
				if cur >= 0 && strings.Contains(errb.String(), deadlockText) {
					// a library call blocked forever: confirmed and attributed in a fresh process
					vs, rerr := replayOnce(c.Self, []*Episode{b.At(cur)}, 10*time.Minute)
					mu.Lock()
					if rerr != nil || len(vs) == 0 {
						a.lost = append(a.lost, fmt.Sprintf("episode %d (worker %d): deadlock not reproduced in a fresh process (%v)", cur, w, rerr))
					}
					a.evals++
					for _, v := range vs {
						if v.Property == c.Prop {
							a.viol = append(a.viol, found{cur, v})
						} else {
							a.others.Add(v.Property+"/"+v.Oracle, 1)
						}
					}
					a.deadlocks++
					mu.Unlock()
					if restarts >= 60 {
						mu.Lock()
						a.lost = append(a.lost, fmt.Sprintf("worker %d: more than 60 episodes blocked forever; the rest of its share was not run", w))
						mu.Unlock()
						return
					}
					from = cur + 1
					continue
				}
				if cur < 0 || restarts > 80 {
					failed[w] = fmt.Errorf("worker %d ended abnormally (last episode %d, err=%v, %d restarts): %s", w, cur, err, restarts, lastLines(errb.String(), 3))
					return
				}
				mu.Lock()
				a.lost = append(a.lost, fmt.Sprintf("episode %d (worker %d): %v - process crashed or exceeded %ds", cur, w, err, c.EpisodeLimitS))
				mu.Unlock()
				from = cur + 1
			}
		}(w)
	}
	wg.Wait()
	for _, err := range failed {
		if err != nil {
			fmt.Fprintf(os.Stderr, "keysim: INCONCLUSIVE: %v\n", err)
			return 2
		}
	}

	if c.Prop == "C09" {
		referenceCheck(c, b, a)
	}

	// report
	known, err := core.LoadKnown(filepath.Join(c.Root, "known_findings.json"))
	if err != nil {
		fmt.Fprintf(os.Stderr, "keysim: INCONCLUSIVE: known_findings.json: %v\n", err)
		return 2
	}
	sort.Slice(a.viol, func(i, j int) bool {
		if a.viol[i].e != a.viol[j].e {
			return a.viol[i].e < a.viol[j].e
		}
		return a.viol[i].v.Oracle < a.viol[j].v.Oracle
	})
	reported, knownMatched, unconfirmed := 0, 0, 0
	seenKind := map[string]bool{}
	var violationLines []string
	for _, f := range a.viol {
		kind := f.v.Oracle
		if seenKind[kind] && known.Match(f.v) == nil {
			continue // one replay per oracle kind is enough; all are counted
		}
		if k := known.Match(f.v); k != nil {
			if !seenKind["known:"+k.Signature] {
				fmt.Printf("KNOWN-FINDING: property=%s %s\n", c.Prop, k.What)
				seenKind["known:"+k.Signature] = true
			}
			knownMatched++
			continue
		}
		if reported >= c.MaxReported {
			continue
		}
		seenKind[kind] = true
		// confirm in a fresh process, alone first, then with its predecessors
		eps := []*Episode{b.At(f.e)}
		vs, err := replayOnce(c.Self, eps, 10*time.Minute)
		if err != nil || hasViolation(vs, c.Prop, f.v.Oracle) == nil {
			var pre []*Episode
			for e := f.e % c.Workers; e <= f.e; e += c.Workers {
				pre = append(pre, b.At(e))
			}
			vs, err = replayOnce(c.Self, pre, 30*time.Minute)
			if err != nil || hasViolation(vs, c.Prop, f.v.Oracle) == nil {
				fmt.Fprintf(os.Stderr, "keysim: episode %d reported %s but a fresh-process replay did not reproduce it (err=%v)\n", f.e, f.v, err)
				unconfirmed++
				continue
			}
			eps = pre
		}
		min, _ := minimise(c.Self, eps, c.Prop, f.v.Oracle, 90*time.Second)
		vs, _ = replayOnce(c.Self, min, 10*time.Minute)
		fd := hasViolation(vs, c.Prop, f.v.Oracle)
		if fd == nil { // cannot happen: minimise only accepts failing candidates
			min = eps
			fd = &f.v
		}
		rf := &ReplayFile{Property: c.Prop, Oracle: f.v.Oracle, Engine: "keysim", Tier: c.Tier, Seed: c.Seed, EpisodeIndex: f.e, TreeHash: c.TreeHash, Minimised: true, Episodes: min, FirstDivergence: fd}
		path := filepath.Join(envOr("VERIF_REPLAY_DIR", filepath.Join(c.Root, "replays")), fmt.Sprintf("%s-%d-%d-%s.json", c.Prop, c.Seed, f.e, f.v.Oracle))
		if err := core.WriteJSON(path, rf); err != nil {
			fmt.Fprintf(os.Stderr, "keysim: cannot write replay: %v\n", err)
			return 2
		}
		fmt.Printf("violation: %s\n", fd.String())
		violationLines = append(violationLines, fmt.Sprintf("VIOLATION property=%s replay=%s", c.Prop, path))
		reported++
	}

	// evidence
	nontrivial := len(a.digests)
	ev := &core.Evidence{PropertyID: c.Prop, Tier: c.Tier, Seed: int64(c.Seed), Level: "exploration", WallS: time.Since(start).Seconds(), Violations: len(a.viol) - knownMatched}
	wall := time.Since(start).Seconds()
	samples := []interface{}{}
	for _, e := range sampleIndices(b) {
		samples = append(samples, b.At(e))
	}
	cells := []string{}
	for _, k := range a.probes.Keys() {
		if strings.HasPrefix(k, "cell:") {
			cells = append(cells, strings.TrimPrefix(k, "cell:"))
		}
	}
	ev.Coverage = map[string]interface{}{
		"evaluations":         a.evals,
		"distinct_nontrivial": nontrivial,
		"rule":                nontrivialRule(c.Prop),
		"samples":             samples,
		"exhaustive":          false,
		"exhaustive_subspaces": exhaustiveSubspaces(c.Prop, c.Tier),
		"episodes_by_profile": a.byProfile,
		"cpu_ms_by_profile":   a.cpuMs,
		"distinct_episodes":   len(a.allDigests),
		"logical_steps":       a.steps,
		"simulated_time":      "none: the library has no clock, timer or deadline; progress is counted in logical steps (operations)",
		"runs_per_hour":       int64(float64(a.evals) / wall * 3600),
		"seeds":               []uint64{c.Seed},
		"faults_fired":        a.faults,
		"probes":              a.probes,
		"config_cells":        cells,
		"real_components":     []string{"xmss: constructors, Sign, SetIndex, treeHashSetup, bdsRound, bdsTreeHashUpdate, treeHashUpdate, xmssFastUpdate, hashH, validateAuthPath, Verify, descriptors, getters", "misc: mnemonic and hash helpers", "dilithium: all of it (wallet episodes)", "crypto/rand.Read -> io.ReadFull over the installed Reader"},
		"stub_components":     []string{"genLeafWOTS replaced by a hash of the leaf index in stub-leaf episodes only (cells with stub=true); real in all others", "entropy source (simulated io.Reader behind crypto/rand.Reader)", "wallet durable record and restart policy (model)", "twin object and counter automaton (oracles)"},
		"dead_state_difference":           a.dead,
		"unconfirmed_snapshot_difference": a.unconf,
		"known_findings_matched":          knownMatched,
		"other_property_oracle_failures":  a.others,
		"episodes_skipped_by_budget":      a.skipped,
		"episodes_lost_to_crash_or_timeout": a.lost,
		"episodes_with_a_call_that_never_returned": a.deadlocks,
		"wallet_keys_compared_with_a_fresh_process_reference": a.refChecked,
		"unconfirmed_in_fresh_process":    unconfirmed,
		"workers":                         c.Workers,
		"tree_hash":                       c.TreeHash,
	}
	ev.Assumptions = []string{
		"sampled histories: a clean batch is evidence, not proof; only the listed exhaustive_subspaces are covered completely",
		"stub-leaf episodes assume what C01 states: traversal control flow depends on (height, index history) only, never on hash values",
		"hooks (build tag verif) copy the traversal state faithfully; a hook/library mismatch shows as a build failure (exit 2)",
		"heights above the listed cells are not executed",
	}
	if err := core.WriteJSON(filepath.Join(envOr("VERIF_EVIDENCE_DIR", filepath.Join(c.Root, "evidence")), c.Prop+".json"), ev); err != nil {
		fmt.Fprintf(os.Stderr, "keysim: cannot write evidence: %v\n", err)
		return 2
	}
	fmt.Printf("keysim: %s %s: %d episodes (%d distinct non-trivial), %d steps, %d violations of %s (%d matched known findings), %d failures of other properties' oracles, %.1fs\n",
		c.Prop, c.Tier, a.evals, nontrivial, a.steps, len(a.viol)-knownMatched, c.Prop, knownMatched, sumCounter(a.others), wall)
	for _, k := range a.others.Keys() {
		fmt.Fprintf(os.Stderr, "keysim: note: oracle of another property failed in this batch: %s x%d (reported by that property's check)\n", k, a.others[k])
	}
	if len(violationLines) > 0 {
		for _, l := range violationLines {
			fmt.Println(l)
		}
		return 1
	}
	if unconfirmed > 0 {
		fmt.Fprintf(os.Stderr, "keysim: INCONCLUSIVE: %d reported failure(s) did not reproduce in a fresh process\n", unconfirmed)
		return 2
	}
	if len(a.lost) > 0 {
		for _, l := range a.lost {
			fmt.Fprintf(os.Stderr, "keysim: INCONCLUSIVE: %s\n", l)
		}
		return 2
	}
	if len(a.viol)-knownMatched > 0 {
		return 1
	}
	if a.probes["auth-path-hook-unavailable"] > 0 && c.Prop == "C01" {
		fmt.Fprintln(os.Stderr, "keysim: INCONCLUSIVE: the authentication-path hook (tag verifauth) does not build against this tree: stub-leaf episodes had no C01 oracle")
		return 2
	}
	if a.probes["hook:auth-not-visible"] > 0 {
		fmt.Fprintln(os.Stderr, "keysim: INCONCLUSIVE: the snapshot hook cannot see the authentication path (no field named auth): state-based oracles were skipped")
		return 2
	}
	if missing := missingProbes(c.Prop, c.Tier, a); len(missing) > 0 && a.skipped == 0 {
		fmt.Fprintf(os.Stderr, "keysim: INCONCLUSIVE: probes stuck at zero: %s\n", strings.Join(missing, ", "))
		return 2
	}
	return 0
}

// referenceEpisode: the same wallet episode without anything that happens
// around the wallet in the process (sibling key, companion wallet, unrelated calls).
func referenceEpisode(ep *Episode) *Episode {
	r := *ep
	r.Sibling, r.Companion, r.Traffic = false, false, false
	return &r
}

// obsDigestFresh runs one episode alone in a fresh process and returns its observation digest.
func obsDigestFresh(self string, ep *Episode) (string, error) {
	f, err := os.CreateTemp("", "keysim-ref-*.json")
	if err != nil {
		return "", err
	}
	defer os.Remove(f.Name())
	json.NewEncoder(f).Encode(&ReplayFile{Episodes: []*Episode{ep}})
	f.Close()
	cmd := exec.Command(self, "replay-raw", f.Name())
	cmd.Stderr = io.Discard
	outp, err := runWithTimeout(cmd, 30*time.Minute)
	if err != nil {
		return "", err
	}
	var res Result
	if err := json.Unmarshal(outp, &res); err != nil {
		return "", err
	}
	return res.ObsDigest, nil
}

// referenceCheck (C09): a worker process has a history - earlier episodes, and
// whatever the episode itself does around the wallet. The key the wallet got
// there must be the key the same creation gives in a process that does nothing
// else; otherwise recovery elsewhere yields a different wallet.
func referenceCheck(c CheckConfig, b *Batch, a *agg) {
	var es []int
	for e := range a.obs {
		ep := b.At(e)
		if ep.Kind != "wallet-xmss" {
			continue
		}
		if ep.Sibling || ep.Companion || ep.Traffic || e%4 == 0 {
			es = append(es, e)
		}
	}
	sort.Ints(es)
	var mu sync.Mutex
	var wg sync.WaitGroup
	sem := make(chan struct{}, c.Workers)
	for _, e := range es {
		e := e
		wg.Add(1)
		sem <- struct{}{}
		go func() {
			defer wg.Done()
			defer func() { <-sem }()
			ep := b.At(e)
			d, err := obsDigestFresh(c.Self, referenceEpisode(ep))
			mu.Lock()
			defer mu.Unlock()
			if err != nil || d == "" {
				return
			}
			a.refChecked++
			if d != a.obs[e] {
				a.viol = append(a.viol, found{e, core.Violation{Property: "C09", Oracle: "key-depends-on-process-history", Where: "wallet",
					Detail:    "the key this wallet got (public key, address, extended seed, first signatures) differs from the key the same creation gives in a fresh process that does nothing else: recovering it elsewhere yields a different wallet",
					Signature: fmt.Sprintf("key-depends-on-process-history:h=%d,hash=%d,create=%s,sibling=%v,companion=%v,traffic=%v", ep.Height, ep.Hash, ep.Create, ep.Sibling, ep.Companion, ep.Traffic)}})
			}
		}()
	}
	wg.Wait()
}

func lastLines(s string, n int) string {
	ls := strings.Split(strings.TrimSpace(s), "\n")
	if len(ls) > n {
		ls = ls[len(ls)-n:]
	}
	return strings.Join(ls, " | ")
}

func envOr(k, d string) string {
	if v := os.Getenv(k); v != "" {
		return v
	}
	return d
}

func sumCounter(c core.Counter) int64 {
	var s int64
	for _, v := range c {
		s += v
	}
	return s
}

func (a *agg) add(prop string, e int, r *Result) {
	a.evals++
	if r.ObsDigest != "" {
		a.obs[e] = r.ObsDigest
	}
	a.steps += r.Steps
	a.faults.Merge(r.Faults)
	a.probes.Merge(r.Probes)
	a.dead += r.DeadState
	a.unconf += r.Unconf
	a.allDigests[r.Digest] = true
	if r.Nontrivial[prop] {
		a.digests[r.Digest] = true
	}
	for _, v := range r.Violations {
		if v.Property == prop {
			a.viol = append(a.viol, found{e, v})
		} else {
			a.others.Add(v.Property+"/"+v.Oracle, 1)
		}
	}
}

func sampleIndices(b *Batch) []int {
	var s []int
	if len(b.Fixed) > 0 {
		s = append(s, len(b.Fixed)-1)
	}
	for i := 0; i < 3 && i < b.Random; i++ {
		s = append(s, len(b.Fixed)+i)
	}
	return s
}

func nontrivialRule(prop string) string {
	gen := "Episodes = a fixed list (whole-life walks / sweeps / configuration matrix, see exhaustive_subspaces) followed by seeded random histories; episode e is a pure function of (property, tier, VERIF_SEED, e). Distinct = distinct SHA-256 digest of (configuration, op list). "
	switch prop {
	case "C01":
		return gen + "Non-trivial = the episode checked at least one signature or authentication path at an index > 0, i.e. after the BDS traversal ran."
	case "C02":
		return gen + "Non-trivial = the episode contains a refused operation that is later followed by a successful signature."
	case "C08":
		return gen + "Non-trivial = the episode contains a crash/rebuild after which at least one signature or authentication path of the rebuilt object was compared with the never-crashed twin's."
	case "C09":
		return gen + "Non-trivial = at least one restore path was compared on identity and on >= 1 signature, or an entropy failure was injected and refused."
	}
	return gen
}

func exhaustiveSubspaces(prop, tier string) []string {
	th := tier == "thorough"
	switch prop {
	case "C01":
		if th {
			return []string{"every index 0..2^h-1 signed/validated plus the refused attempt at 2^h: stub leaves h in {4,6,...,20} x 3 hash functions and h = 22 with one hash function (by signing up to h = 14, by unit SetIndex steps above); real leaves h in {4,6,8,10} x 3 hash functions", "every single forward jump i -> j (0 <= i <= j < 2^h), path checked at j..j+3 and at the last index: stub leaves h in {4,6,8}"}
		}
		return []string{"every index 0..2^h-1 signed/validated plus the refused attempt at 2^h: stub leaves h in {4,6,8,10,12,14} x 3 hash functions; real leaves h in {4,6,8} x 3 hash functions and h = 10 with one hash function", "every single forward jump i -> j (0 <= i <= j < 2^h), path checked at j..j+3 and at the last index: stub leaves h in {4,6}"}
	case "C02":
		return []string{"every refusal class (SetIndex to 2^h, 2^h+1, 2^31, 2^32-2, 2^32-1, random >= 2^h, idx-1, 0, random < idx; Sign after exhaustion) tried before the last leaf, after exhaustion and mid-life with a signature after each: stub leaves h in {4,6,...,16}, real leaves h in {4,6}, 3 hash functions"}
	case "C08":
		if th {
			return []string{"every crash index i in [0,2^h] x 4 secret forms x 4 restore-plan kinds, each drained to the end of the key's life: stub leaves h in {4,6,8}, real leaves h in {4,6}", "every single forward jump i -> j compared with a twin that took unit steps: stub leaves h in {4,6,8}", "signing path vs fast-forward path compared at every index of the key (live signs, twin only SetIndex): stub leaves h in {4,...,14}, real leaves h = 6"}
		}
		return []string{"every crash index i in [0,2^h] x 4 secret forms x 4 restore-plan kinds, each drained to the end of the key's life: stub leaves h in {4,6}, real leaves h = 4", "every single forward jump i -> j compared with a twin that took unit steps: stub leaves h in {4,6}", "signing path vs fast-forward path compared at every index of the key (live signs, twin only SetIndex): stub leaves h in {4,...,12}, real leaves h = 6"}
	case "C09":
		return []string{"entropy failure after k bytes for every k in [0,48), as a device error and as a source running dry (io.EOF), XMSS and Dilithium", "every (height, hash function) cell of the listed heights with all four XMSS restore paths", "every one of the 4096 mnemonic word indices occurs in a secret that is exported and recovered, through the 48-byte (Dilithium) and the 51-byte (XMSS) codec path"}
	}
	return []string{}
}

func missingProbes(prop, tier string, a *agg) []string {
	var need []string
	switch prop {
	case "C01":
		need = []string{"sign:tau=0", "sign:tau=1", "sign:tau=3", "sign:last-index", "refusal-at-2^h", "jump:crosses-half", "jump:distance-0"}
	case "C02":
		need = []string{"sign:after-refused-op", "refusal-at-2^h", "sign:last-index"}
		for _, f := range []string{"refused-rewind", "refused-too-high", "refused-exhausted"} {
			if a.faults[f] == 0 {
				need = append(need, "fault:"+f)
			}
		}
	case "C08":
		need = []string{"restart:at-0", "restart:at-last", "restart:at-2^h", "restart:plan>=3-jumps"}
		for _, f := range []string{"form=seed", "form=ext", "form=hex", "form=mnemonic", "plan=one-jump", "plan=multi-jump", "plan=signs", "plan=mixed"} {
			if a.faults["crash-restart:"+f] == 0 {
				need = append(need, "fault:crash-restart:"+f)
			}
		}
	case "C09":
		need = []string{"create:xmss:seed", "create:xmss:entropy", "create:dilithium:seed", "create:dilithium:entropy", "entropy-failure:refused"}
		for _, f := range []string{"entropy-short-read", "entropy-empty-read", "entropy-error", "entropy-ran-dry(EOF)", "entropy-eof-with-last-bytes"} {
			if a.faults[f] == 0 {
				need = append(need, "fault:"+f)
			}
		}
	}
	var missing []string
	for _, p := range need {
		if strings.HasPrefix(p, "fault:") {
			missing = append(missing, p)
		} else if a.probes[p] == 0 {
			missing = append(missing, p)
		}
	}
	return missing
}
