package keysim

import (
	"encoding/hex"
	"fmt"

	"verif/core"
)

// Everything in this file draws from a *core.Rand only. Generators follow the
// counter-automaton model to know which operations are valid; they never look
// at the implementation.

func seedHex(r *core.Rand) string {
	var s [48]byte
	r.Bytes(s[:])
	return hex.EncodeToString(s[:])
}

var msgLens = []int{0, 1, 31, 32, 33, 55, 56, 63, 64, 65, 100, 119, 120, 128, 129, 135, 136, 167, 168, 200, 1024}

func genMsgLen(r *core.Rand, allowBig bool) int {
	switch r.Intn(12) {
	case 0:
		if allowBig {
			return 65536
		}
		return 4096
	case 1:
		return r.Intn(300)
	default:
		return msgLens[r.Intn(len(msgLens))]
	}
}

func signOp(r *core.Rand, big bool) Op {
	op := Op{K: "sign", ML: genMsgLen(r, big), MS: r.Uint64()}
	switch r.Intn(16) {
	case 0:
		op.MK, op.ML = "nil", 0
	case 1:
		op.MK = "cap"
	case 2:
		op.MK = "prevsig"
	}
	return op
}

// validJump picks a forward target j in [idx, leaves-1]. maxDist bounds the
// distance (cost control for real leaves); 0 = unbounded.
func validJump(r *core.Rand, idx, h uint32, maxDist uint32) uint32 {
	leaves := uint32(1) << h
	if idx >= leaves-1 {
		return idx
	}
	var j uint32
	switch r.Intn(11) {
	case 0:
		j = idx
	case 1:
		j = idx + 1
	case 2:
		j = idx + 2
	case 3, 4: // next multiple of 2^t, or just before / after it
		t := uint32(r.Range(1, int(h)-1))
		j = ((idx >> t) + 1) << t
		switch r.Intn(3) {
		case 0:
			j--
		case 1:
			j++
		}
	case 5: // tree-hash start positions
		t := uint32(r.Intn(int(h)))
		j = idx + 3*(1<<t)
		if r.Chance(0.5) {
			j++
		}
	case 6:
		j = leaves - 2
	case 7:
		j = leaves - 1
	case 8: // around the middle of the tree
		j = leaves/2 - 1 + uint32(r.Intn(3))
	default:
		j = idx + r.Uint32n(leaves-idx)
	}
	if j < idx {
		j = idx
	}
	if j > leaves-1 {
		j = leaves - 1
	}
	if maxDist > 0 && j-idx > maxDist {
		j = idx + r.Uint32n(maxDist+1)
	}
	return j
}

// invalidJump picks a target the model refuses at idx, or ok=false if none of
// the chosen class exists.
func invalidJump(r *core.Rand, idx, h uint32) (uint32, bool) {
	leaves := uint32(1) << h
	switch r.Intn(8) {
	case 0:
		if idx == 0 {
			return 0, false
		}
		return idx - 1, true
	case 1:
		if idx == 0 {
			return 0, false
		}
		return 0, true
	case 2:
		if idx == 0 {
			return 0, false
		}
		return r.Uint32n(idx), true
	case 3:
		return leaves, true
	case 4:
		return leaves + 1, true
	case 5:
		return 1 << 31, true
	case 6:
		return 0xffffffff, true
	default:
		return leaves + r.Uint32n(0xffffffff-leaves), true
	}
}

var forms = []string{"seed", "ext", "hex", "mnemonic"}

// crashOp builds a crash/restart op for a wallet whose durable reserved index
// is r >= idx. kind: one-jump | multi-jump | signs | mixed | any
func crashOp(r *core.Rand, idx, h uint32, form, kind string, ahead uint32, maxSigns uint32) Op {
	leaves := uint32(1) << h
	target := idx + ahead
	if target > leaves-1 && idx < leaves {
		target = leaves - 1
	}
	if idx >= leaves {
		target = leaves
	}
	if target < idx {
		target = idx
	}
	op := Op{K: "crash", Form: form}
	if target >= leaves {
		op.Plan = []uint32{target}
		return op
	}
	if kind == "any" {
		kind = []string{"one-jump", "multi-jump", "signs", "mixed"}[r.Intn(4)]
	}
	if (kind == "signs" && target > maxSigns) || (kind == "mixed" && target < 2) {
		kind = "multi-jump"
	}
	if kind == "multi-jump" && target < 2 {
		kind = "one-jump"
	}
	if kind == "signs" && target == 0 {
		kind = "one-jump"
	}
	switch kind {
	case "one-jump":
		op.Plan = []uint32{target}
	case "multi-jump":
		n := r.Range(2, 5)
		op.Plan = increasing(r, 0, target, n)
	case "signs":
		op.Signs = int(target)
	case "mixed":
		s := uint32(r.Range(1, int(minU(target-1, maxU(1, minU(maxSigns, 12))))))
		op.Signs = int(s)
		n := r.Range(1, 3)
		op.Plan = increasing(r, s, target, n)
	}
	return op
}

func minU(a, b uint32) uint32 {
	if a < b {
		return a
	}
	return b
}
func maxU(a, b uint32) uint32 {
	if a > b {
		return a
	}
	return b
}

// increasing returns n non-decreasing values in [lo, hi], the last being hi.
func increasing(r *core.Rand, lo, hi uint32, n int) []uint32 {
	p := make([]uint32, n)
	p[n-1] = hi
	for i := n - 2; i >= 0; i-- {
		p[i] = lo + r.Uint32n(p[i+1]-lo+1)
	}
	return p
}

// reach returns ops (signs and forward jumps only) taking a fresh key from
// index 0 to exactly target.
func reach(r *core.Rand, target, h uint32, style int) []Op {
	var ops []Op
	idx := uint32(0)
	for idx < target {
		switch style {
		case 0: // one jump
			ops = append(ops, Op{K: "jump", J: target})
			idx = target
		case 1: // signatures only
			ops = append(ops, Op{K: "walk", N: target - idx, Via: "sign", ML: 32, MS: r.Uint64()})
			idx = target
		default: // mixed
			if r.Chance(0.5) {
				ops = append(ops, signOp(r, false))
				idx++
			} else {
				j := idx + r.Uint32n(target-idx+1)
				ops = append(ops, Op{K: "jump", J: j})
				idx = j
			}
		}
	}
	return ops
}

// HistCfg are the swarm parameters of one seeded history.
type HistCfg struct {
	Height   uint8
	Hash     uint8
	Stub     bool
	Twin     string
	NOps     int
	WSign    int
	WJump    int
	WRefused int
	WCrash   int
	MaxDist  uint32 // jump distance bound (cost control with real leaves)
	MaxSigns uint32 // most dummy signatures a restore plan may use
	NearEnd  bool   // start by jumping to 2^h - small
	Drain    string
	Profile  string
}

func genHistory(r *core.Rand, c HistCfg) *Episode {
	h := uint32(c.Height)
	leaves := uint32(1) << h
	ep := &Episode{Kind: "xmss", Profile: c.Profile, Height: c.Height, Hash: c.Hash, Stub: c.Stub, SeedHex: seedHex(r), Twin: c.Twin, Drain: c.Drain, DrainSeed: r.Uint64()}
	ep.Ctor = []string{"", "", "", "", "ext", "ext", "ext", "height", "height", "extfmt"}[r.Intn(10)]
	ep.Regen = c.WCrash > 0 && r.Chance(0.5)
	idx := uint32(0)
	if c.NearEnd {
		back := uint32(r.Range(0, 6))
		if back > leaves-1 {
			back = leaves - 1
		}
		j := leaves - 1 - back
		ep.Ops = append(ep.Ops, Op{K: "jump", J: j})
		idx = j
	}
	w := []int{c.WSign, c.WJump, c.WRefused, c.WCrash}
	withOthers := r.Chance(0.3) // the process also works with other keys meanwhile
	for len(ep.Ops) < c.NOps {
		if withOthers && r.Chance(0.12) {
			k := "sibling"
			if r.Chance(0.5) {
				k = "other"
			}
			ep.Ops = append(ep.Ops, Op{K: k, MS: r.Uint64()})
			continue
		}
		switch r.Pick(w) {
		case 0:
			ep.Ops = append(ep.Ops, signOp(r, c.Height <= 8))
			if idx < leaves {
				idx++
			}
		case 1:
			if idx >= leaves {
				continue
			}
			j := validJump(r, idx, h, c.MaxDist)
			ep.Ops = append(ep.Ops, Op{K: "jump", J: j})
			idx = j
		case 2:
			j, ok := invalidJump(r, idx, h)
			if !ok {
				continue
			}
			ep.Ops = append(ep.Ops, Op{K: "jump", J: j})
		case 3:
			ahead := uint32(0)
			switch r.Intn(6) {
			case 0:
				ahead = 1
			case 1:
				ahead = uint32(r.Range(2, 5))
			case 2:
				if c.MaxDist > 0 {
					ahead = r.Uint32n(c.MaxDist + 1)
				} else {
					ahead = r.Uint32n(leaves)
				}
			}
			op := crashOp(r, idx, h, forms[r.Intn(4)], "any", ahead, c.MaxSigns)
			ep.Ops = append(ep.Ops, op)
			if len(op.Plan) > 0 {
				idx = op.Plan[len(op.Plan)-1]
			} else {
				idx = uint32(op.Signs)
			}
			if idx >= leaves { // restart at exhaustion ends the episode
				return ep
			}
		}
	}
	return ep
}

// wholeLife: every index of the key is signed, then one more attempt.
func wholeLife(r *core.Rand, height, hash uint8, stub bool, viaUnitAbove uint8) *Episode {
	leaves := uint32(1) << height
	ep := &Episode{Kind: "xmss", Profile: "whole-life", Height: height, Hash: hash, Stub: stub, SeedHex: seedHex(r), Twin: "none", Drain: "none"}
	if stub && height > viaUnitAbove {
		ep.Ops = []Op{{K: "walk", N: leaves - 1, Via: "unit"}, {K: "sign", ML: 32, MS: r.Uint64()}, {K: "sign", ML: 8, MS: 1}}
	} else {
		ep.Ops = []Op{{K: "walk", N: leaves, Via: "sign", ML: 32, MS: r.Uint64()}, {K: "sign", ML: 8, MS: 1}}
	}
	return ep
}

// allJumps: every single forward jump i -> j of a height, the path then
// followed for a few indices and at the last index.
func allJumps(b *Batch, seed uint64, prop string, height uint8, twin string) {
	leaves := uint32(1) << height
	for i := uint32(0); i < leaves; i++ {
		for j := i; j < leaves; j++ {
			r := core.Derive(seed, "keysim", prop, "jumps", height, i, j)
			ep := &Episode{Kind: "xmss", Profile: "all-jumps", Height: height, Hash: uint8(r.Intn(3)), Stub: true, SeedHex: seedHex(r), Twin: twin, Drain: "tail:3", DrainSeed: r.Uint64()}
			if i > 0 {
				if r.Chance(0.5) {
					ep.Ops = append(ep.Ops, Op{K: "jump", J: i})
				} else {
					ep.Ops = append(ep.Ops, Op{K: "walk", N: i, Via: "unit"})
				}
			}
			ep.Ops = append(ep.Ops, Op{K: "jump", J: j})
			b.Fixed = append(b.Fixed, ep)
		}
	}
}

// Batch is the list of episodes of one (property, tier, seed).
type Batch struct {
	Fixed  []*Episode
	Random int
	gen    func(r *core.Rand, e int) *Episode
	seed   uint64
	prop   string
}

func (b *Batch) Len() int { return len(b.Fixed) + b.Random }

// At returns episode e. Episode e depends only on (property, tier, seed, e).
func (b *Batch) At(e int) *Episode {
	if e < len(b.Fixed) {
		return b.Fixed[e]
	}
	return b.gen(core.Derive(b.seed, "keysim", b.prop, "episode", e), e)
}

func pickHeight(r *core.Rand, hs []uint8) uint8 { return hs[r.Intn(len(hs))] }

// NewBatch builds the episode list for a property and tier.
func NewBatch(prop, tier string, seed uint64) *Batch {
	b := &Batch{seed: seed, prop: prop}
	fr := core.Derive(seed, "keysim", prop, "fixed")
	thorough := tier == "thorough"
	switch prop {
	case "C01":
		realLife := []uint8{4, 6, 8}
		stubLife := []uint8{4, 6, 8, 10, 12, 14}
		if thorough {
			realLife = []uint8{4, 6, 8, 10}
			stubLife = []uint8{4, 6, 8, 10, 12, 14, 16, 18, 20}
			b.Fixed = append(b.Fixed, wholeLife(fr, 22, uint8(seed%3), true, 14)) // one hash function, ~5 min
		}
		// heavy first, so that static assignment spreads them over workers
		for i := len(stubLife) - 1; i >= 0; i-- {
			for hf := uint8(0); hf < 3; hf++ {
				viaUnitAbove := uint8(12)
				if thorough {
					viaUnitAbove = 14
				}
				b.Fixed = append(b.Fixed, wholeLife(fr, stubLife[i], hf, true, viaUnitAbove))
			}
		}
		// multi-byte index boundaries (2^8, 2^16): signatures on both sides
		for ci, cb := range []struct {
			h   uint8
			idx uint32
		}{{18, 1<<16 - 1}, {10, 1<<8 - 1}} {
			ep := &Episode{Kind: "xmss", Profile: "c01-index-bytes", Height: cb.h, Hash: uint8((int(seed) + ci) % 3), Stub: true, SeedHex: seedHex(fr), Twin: "none", Drain: "none"}
			ep.Ops = []Op{{K: "jump", J: cb.idx - 1}, signOp(fr, false), signOp(fr, false), signOp(fr, false), signOp(fr, false), {K: "jump", J: 3 * (cb.idx + 1)}, signOp(fr, false), signOp(fr, false)}
			b.Fixed = append(b.Fixed, ep)
		}
		// real keys of greater height: a few signatures each (key generation dominates)
		spot := []uint8{12}
		if thorough {
			spot = []uint8{16, 14, 12}
		}
		for _, h := range spot {
			ep := &Episode{Kind: "xmss", Profile: "c01-real-tall", Height: h, Hash: uint8((seed + uint64(h)) % 3), Stub: false, SeedHex: seedHex(fr), Twin: "none", Drain: "none"}
			// (fast-forwarding real leaves costs ~13 ms per index: keep the jumps short)
			ep.Ops = []Op{signOp(fr, false), signOp(fr, false), {K: "jump", J: 40}, {K: "walk", N: 4, Via: "sign", ML: 32, MS: fr.Uint64()}, {K: "jump", J: 200}, signOp(fr, false), signOp(fr, false), signOp(fr, false)}
			b.Fixed = append([]*Episode{ep}, b.Fixed...)
		}
		if !thorough { // one real-leaf whole life at h=10 in quick (the thorough tier has all three)
			b.Fixed = append(b.Fixed, wholeLife(fr, 10, uint8(seed%3), false, 0))
		}
		for i := len(realLife) - 1; i >= 0; i-- {
			for hf := uint8(0); hf < 3; hf++ {
				b.Fixed = append(b.Fixed, wholeLife(fr, realLife[i], hf, false, 0))
			}
		}
		allJumps(b, seed, "C01", 4, "none")
		allJumps(b, seed, "C01", 6, "none")
		if thorough {
			allJumps(b, seed, "C01", 8, "none")
		}
		b.Random = 400
		if thorough {
			b.Random = 6000
		}
		b.gen = func(r *core.Rand, e int) *Episode {
			c := HistCfg{Profile: "c01-hist", Hash: uint8(r.Intn(3)), Twin: "none", Drain: "tail:4"}
			if r.Chance(0.25) { // real leaves
				hs := []uint8{4, 4, 6, 6, 8}
				if thorough {
					hs = []uint8{4, 6, 6, 8, 8, 10}
				}
				c.Height = pickHeight(r, hs)
				c.NOps = r.Range(6, 24)
				c.MaxDist = 24
				c.MaxSigns = 6
			} else {
				c.Stub = true
				hs := []uint8{4, 6, 8, 10, 12, 14}
				if thorough {
					hs = []uint8{4, 6, 8, 10, 12, 14, 16}
				}
				c.Height = pickHeight(r, hs)
				c.NOps = r.Range(10, 60)
				c.MaxSigns = 24
				if c.Height >= 14 {
					c.MaxDist = 3000
				}
				if r.Chance(0.3) {
					c.Drain = "tail:40"
				}
			}
			c.WSign, c.WJump, c.WRefused, c.WCrash = r.Range(2, 8), r.Range(1, 6), r.Range(0, 3), r.Range(0, 2)
			c.NearEnd = r.Chance(0.15)
			return genHistory(r, c)
		}
	case "C02":
		// fixed: exhaustion and a gauntlet of every refusal class, per height
		for _, hc := range []struct {
			h    uint8
			stub bool
		}{{18, true}, {16, true}, {14, true}, {12, true}, {10, true}, {8, true}, {6, true}, {4, true}, {6, false}, {4, false}} {
			if hc.h == 18 && !thorough {
				continue
			}
			leaves := uint32(1) << hc.h
			for hf := uint8(0); hf < 3; hf++ {
				inv := func(idx uint32) []Op {
					js := []uint32{leaves, leaves + 1, 1 << 31, 0xffffffff, 0xfffffffe, leaves + fr.Uint32n(1<<20)}
					if idx > 0 {
						js = append(js, idx-1, 0, fr.Uint32n(idx))
					}
					var ops []Op
					for _, j := range js {
						ops = append(ops, Op{K: "jump", J: j})
					}
					return ops
				}
				ep := &Episode{Kind: "xmss", Profile: "c02-exhaustion", Height: hc.h, Hash: hf, Stub: hc.stub, SeedHex: seedHex(fr), Twin: "mirror", Drain: "none"}
				ep.Ops = append(ep.Ops, Op{K: "jump", J: leaves - 3}, signOp(fr, false), signOp(fr, false))
				ep.Ops = append(ep.Ops, Op{K: "jump", J: leaves - 1}) // SetIndex(current) at the last leaf
				ep.Ops = append(ep.Ops, inv(leaves-1)...)
				ep.Ops = append(ep.Ops, Op{K: "jump", J: leaves - 1})
				ep.Ops = append(ep.Ops, signOp(fr, false), signOp(fr, false)) // last leaf, then refused
				ep.Ops = append(ep.Ops, inv(leaves)...)
				ep.Ops = append(ep.Ops, Op{K: "jump", J: leaves - 1}, signOp(fr, false), signOp(fr, false))
				b.Fixed = append(b.Fixed, ep)
				mid := 1 + fr.Uint32n(leaves-4)
				g := &Episode{Kind: "xmss", Profile: "c02-gauntlet", Height: hc.h, Hash: hf, Stub: hc.stub, SeedHex: seedHex(fr), Twin: "mirror", Drain: "tail:6", DrainSeed: fr.Uint64()}
				if hc.stub || mid < 24 {
					g.Ops = append(g.Ops, Op{K: "jump", J: mid})
				} else {
					mid = 3
					g.Ops = append(g.Ops, Op{K: "jump", J: mid})
				}
				for gi, o := range inv(mid) {
					if gi%2 == 1 {
						g.Ops = append(g.Ops, Op{K: "jump", J: mid}) // distance 0 right before the refused call
					}
					if gi%3 == 2 {
						g.Ops = append(g.Ops, o) // the same refused call twice in a row
					}
					g.Ops = append(g.Ops, o, signOp(fr, false))
					mid++
					if mid >= leaves-1 {
						break
					}
				}
				b.Fixed = append(b.Fixed, g)
			}
		}
		// byte-carry boundaries of the stored index: signatures at 2^8-1, 2^16-1
		// (and, thorough only, 2^24-1: ~15 min of fast-forwarding on one worker)
		carry := []struct {
			h   uint8
			idx uint32
		}{{18, 1<<16 - 1}, {18, 1<<17 - 1}, {10, 1<<8 - 1}, {10, 1<<9 - 1}}
		if thorough {
			carry = append([]struct {
				h   uint8
				idx uint32
			}{{24, 1<<24 - 1}}, carry...)
		}
		for ci, cb := range carry {
			ep := &Episode{Kind: "xmss", Profile: "c02-carry", Height: cb.h, Hash: uint8(ci % 3), Stub: true, SeedHex: seedHex(fr), Twin: "none", Drain: "none"}
			ep.Ops = []Op{{K: "jump", J: cb.idx - 1}, signOp(fr, false), signOp(fr, false), signOp(fr, false), {K: "jump", J: cb.idx - 1}, {K: "jump", J: cb.idx + 2}, signOp(fr, false)}
			if cb.idx+1 == uint32(1)<<cb.h { // the boundary is the end of the key
				ep.Ops = []Op{{K: "jump", J: cb.idx - 1}, signOp(fr, false), signOp(fr, false), signOp(fr, false), {K: "jump", J: 0}, signOp(fr, false)}
			}
			b.Fixed = append(b.Fixed, ep)
		}
		b.Random = 700
		if thorough {
			b.Random = 12000
		}
		b.gen = func(r *core.Rand, e int) *Episode {
			c := HistCfg{Profile: "c02-hist", Hash: uint8(r.Intn(3)), Twin: "mirror"}
			if r.Chance(0.2) {
				hs := []uint8{4, 4, 6}
				if thorough {
					hs = []uint8{4, 6, 8}
				}
				c.Height = pickHeight(r, hs)
				c.NOps = r.Range(6, 20)
				c.MaxDist = 20
				c.Drain = "tail:3"
				if c.Height == 4 {
					c.Drain = "full"
				}
			} else {
				c.Stub = true
				hs := []uint8{4, 4, 6, 6, 8, 10, 12}
				if thorough {
					hs = []uint8{4, 6, 8, 10, 12, 14, 16}
				}
				c.Height = pickHeight(r, hs)
				c.NOps = r.Range(8, 50)
				if c.Height >= 14 {
					c.MaxDist = 2000
				}
				c.Drain = "full"
				if c.Height > 10 {
					c.Drain = "tail:30"
				}
			}
			c.WSign, c.WJump, c.WRefused, c.WCrash = r.Range(2, 8), r.Range(1, 4), r.Range(2, 8), 0
			c.NearEnd = r.Chance(0.4)
			return genHistory(r, c)
		}
	case "C08":
		// sweep: every crash index x secret form x restore-plan kind
		sweep := func(height uint8, stub bool) {
			leaves := uint32(1) << height
			for i := uint32(0); i <= leaves; i++ {
				for fi, form := range forms {
					for ki, kind := range []string{"one-jump", "multi-jump", "signs", "mixed"} {
						r := core.Derive(seed, "keysim", "C08", "sweep", height, stub, i, fi, ki)
						ep := &Episode{Kind: "xmss", Profile: "c08-sweep", Height: height, Hash: uint8(r.Intn(3)), Stub: stub, SeedHex: seedHex(r), Drain: "full", DrainSeed: r.Uint64()}
						ep.Twin = []string{"mirror", "unit", "sign"}[r.Intn(3)]
						ep.Ops = reach(r, i, uint32(height), r.Intn(3))
						ahead := uint32(0)
						if r.Chance(0.25) {
							ahead = uint32(r.Range(1, 4))
						}
						ep.Ops = append(ep.Ops, crashOp(r, i, uint32(height), form, kind, ahead, 64))
						b.Fixed = append(b.Fixed, ep)
					}
				}
			}
		}
		// signing path vs fast-forward path at every index: the live key signs
		// its whole life, the twin follows by SetIndex only
		swh := []uint8{12, 10, 8, 6, 4}
		if thorough {
			swh = []uint8{14, 12, 10, 8, 6, 4}
		}
		for _, h := range swh {
			for hf := uint8(0); hf < 3; hf++ {
				b.Fixed = append(b.Fixed, &Episode{Kind: "xmss", Profile: "c08-signwalk", Height: h, Hash: hf, Stub: true, SeedHex: seedHex(fr), Twin: "ff", Drain: "none",
					Ops: []Op{{K: "walk", N: uint32(1) << h, Via: "sign", ML: 32, MS: fr.Uint64()}}})
			}
		}
		for hf := uint8(0); hf < 3; hf++ {
			b.Fixed = append(b.Fixed, &Episode{Kind: "xmss", Profile: "c08-signwalk", Height: 6, Hash: hf, Stub: false, SeedHex: seedHex(fr), Twin: "ff", Drain: "none",
				Ops: []Op{{K: "walk", N: 64, Via: "sign", ML: 32, MS: fr.Uint64()}}})
		}
		if thorough {
			sweep(8, true)
			sweep(6, false)
		}
		sweep(6, true)
		sweep(4, true)
		sweep(4, false)
		allJumps(b, seed, "C08", 4, "unit")
		allJumps(b, seed, "C08", 6, "unit")
		if thorough {
			allJumps(b, seed, "C08", 8, "unit")
		}
		b.Random = 500
		if thorough {
			b.Random = 8000
		}
		b.gen = func(r *core.Rand, e int) *Episode {
			c := HistCfg{Profile: "c08-hist", Hash: uint8(r.Intn(3)), Twin: []string{"mirror", "unit", "sign"}[r.Intn(3)]}
			if r.Chance(0.2) {
				hs := []uint8{4, 4, 6, 6, 6, 8}
				if thorough {
					hs = []uint8{4, 6, 8, 8, 10}
				}
				c.Height = pickHeight(r, hs)
				c.NOps = r.Range(4, 14)
				c.MaxDist = 16
				c.MaxSigns = 6
				c.Drain = "tail:4"
				if c.Height <= 6 {
					c.Drain = "full"
				}
			} else {
				c.Stub = true
				hs := []uint8{4, 6, 8, 8, 10, 10, 12, 14}
				if thorough {
					hs = []uint8{6, 8, 10, 12, 14, 16, 18}
				}
				c.Height = pickHeight(r, hs)
				c.NOps = r.Range(6, 40)
				c.MaxSigns = 24
				if c.Height >= 12 {
					c.MaxDist = 2500
					if c.Twin == "sign" { // a signing twin pays a WOTS signature per skipped index
						c.Twin = "unit"
					}
					if r.Chance(0.3) { // long jumps (more than 2^12 leaves) with the cheap twins
						c.MaxDist = 0
						c.NOps = r.Range(4, 12)
					}
				}
				c.Drain = "full"
				if c.Height > 10 && !(thorough && c.Height == 12) {
					c.Drain = "tail:60"
				}
			}
			c.WSign, c.WJump, c.WRefused, c.WCrash = r.Range(2, 8), r.Range(1, 6), 0, r.Range(1, 4)
			if r.Chance(0.5) {
				// refused calls (rewind, too high) the caller recovers from, then
				// keeps using the object: the twin and every later rebuild never
				// saw them, so a refusal that moved hidden state shows as a
				// continuation mismatch
				c.WRefused = r.Range(1, 3)
			}
			c.NearEnd = r.Chance(0.15)
			return genHistory(r, c)
		}
	case "C09":
		newWalletBatch(b, fr, thorough)
	default:
		panic(fmt.Sprintf("no keysim batch for property %q", prop))
	}
	return b
}
