#!/bin/bash
# Run once after a fresh restore, offline: builds the framework from files on disk.
set -e
cd "$(dirname "${BASH_SOURCE[0]}")"
export GOFLAGS=-mod=mod GOPROXY=off GOSUMDB=off GOTOOLCHAIN=local GOWORK=off
mkdir -p bin evidence replays
go build -tags "verif verifauth verifwots" -o bin/keysim ./cmd/keysim
[ -d cmd/instrument ] && go build -o bin/instrument ./cmd/instrument
echo "setup: ok"
