package core

import (
	"encoding/json"
	"fmt"
	"os"
	"path/filepath"
	"sort"
	"strings"
)

// Violation is one oracle failure, attributed to one property.
type Violation struct {
	Property string `json:"property"`
	Oracle   string `json:"oracle"`           // short stable name of the oracle that failed
	Where    string `json:"where"`            // op index / call id at which it was observed
	Detail   string `json:"detail,omitempty"` // human-readable
	// Signature identifies the failing input / call site / history class for
	// matching against known_findings.json. Stable across seeds.
	Signature string `json:"signature"`
}

func (v Violation) String() string {
	return fmt.Sprintf("%s/%s at %s: %s [%s]", v.Property, v.Oracle, v.Where, v.Detail, v.Signature)
}

// Counter is a deterministic string->count multiset (sorted on output).
type Counter map[string]int64

func (c Counter) Add(k string, n int64) { c[k] += n }
func (c Counter) Merge(o Counter) {
	for k, v := range o {
		c[k] += v
	}
}
func (c Counter) Keys() []string {
	ks := make([]string, 0, len(c))
	for k := range c {
		ks = append(ks, k)
	}
	sort.Strings(ks)
	return ks
}

// Evidence is written to /verif/evidence/<id>.json by every check run.
type Evidence struct {
	PropertyID  string                 `json:"property_id"`
	Tier        string                 `json:"tier"`
	Seed        int64                  `json:"seed"`
	Level       string                 `json:"level"`
	Coverage    map[string]interface{} `json:"coverage"`
	Assumptions []string               `json:"assumptions"`
	WallS       float64                `json:"wall_s"`
	Violations  int                    `json:"violations"`
}

func WriteJSON(path string, v interface{}) error {
	if err := os.MkdirAll(filepath.Dir(path), 0o755); err != nil {
		return err
	}
	b, err := json.MarshalIndent(v, "", " ")
	if err != nil {
		return err
	}
	tmp := path + ".tmp"
	if err := os.WriteFile(tmp, append(b, '\n'), 0o644); err != nil {
		return err
	}
	return os.Rename(tmp, path)
}

// KnownFindings is /verif/known_findings.json: committed, never written at run
// time. "known" entries turn a matching violation into a KNOWN-FINDING line;
// "fixed" entries are a record only and suppress nothing.
type KnownFindings struct {
	Known []KnownEntry `json:"known"`
	Fixed []FixedEntry `json:"fixed"`
}
type KnownEntry struct {
	Property  string `json:"property"`
	Oracle    string `json:"oracle"`
	Signature string `json:"signature"` // exact match, or prefix match when it ends in '*'
	What      string `json:"what"`
}
type FixedEntry struct {
	Property string `json:"property"`
	Commit   string `json:"commit"`
	What     string `json:"what"`
}

func LoadKnown(path string) (*KnownFindings, error) {
	b, err := os.ReadFile(path)
	if err != nil {
		if os.IsNotExist(err) {
			return &KnownFindings{}, nil
		}
		return nil, err
	}
	k := &KnownFindings{}
	if err := json.Unmarshal(b, k); err != nil {
		return nil, err
	}
	return k, nil
}

func (k *KnownFindings) Match(v Violation) *KnownEntry {
	for i := range k.Known {
		e := &k.Known[i]
		if e.Property != v.Property || (e.Oracle != "" && e.Oracle != v.Oracle) {
			continue
		}
		if strings.HasSuffix(e.Signature, "*") {
			if strings.HasPrefix(v.Signature, strings.TrimSuffix(e.Signature, "*")) {
				return e
			}
		} else if e.Signature == v.Signature {
			return e
		}
	}
	return nil
}

// DDMin is a bounded delta-debugging loop over a list of n removable items.
// test(keep) reports whether the failure persists when only the items with
// keep[i] == true are retained. It returns the final keep mask.
func DDMin(n int, budget func() bool, test func(keep []bool) bool) []bool {
	keep := make([]bool, n)
	for i := range keep {
		keep[i] = true
	}
	alive := func() []int {
		var a []int
		for i, k := range keep {
			if k {
				a = append(a, i)
			}
		}
		return a
	}
	chunk := (n + 1) / 2
	for chunk >= 1 && budget() {
		a := alive()
		if len(a) <= 1 {
			break
		}
		progress := false
		for start := 0; start < len(a) && budget(); start += chunk {
			end := start + chunk
			if end > len(a) {
				end = len(a)
			}
			cand := make([]bool, n)
			copy(cand, keep)
			for _, i := range a[start:end] {
				cand[i] = false
			}
			if test(cand) {
				keep = cand
				progress = true
			}
		}
		if !progress {
			if chunk == 1 {
				break
			}
			chunk = (chunk + 1) / 2
		} else if chunk > len(alive()) {
			chunk = (len(alive()) + 1) / 2
		}
	}
	return keep
}
