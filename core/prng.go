// Package core holds what both simulators share: the seeded PRNG, replay
// files, the delta-debugging minimiser, known findings and evidence writing.
package core

import (
	"crypto/sha256"
	"encoding/binary"
	"fmt"
)

// Rand is xoshiro256** seeded through SplitMix64. It is the only source of
// choices in the simulators; nothing here reads a clock or a global generator.
type Rand struct{ s [4]uint64 }

func splitmix(x *uint64) uint64 {
	*x += 0x9e3779b97f4a7c15
	z := *x
	z = (z ^ (z >> 30)) * 0xbf58476d1ce4e5b9
	z = (z ^ (z >> 27)) * 0x94d049bb133111eb
	return z ^ (z >> 31)
}

func NewRand(seed uint64) *Rand {
	r := &Rand{}
	x := seed
	for i := range r.s {
		r.s[i] = splitmix(&x)
	}
	return r
}

// Derive returns an independent stream identified by (seed, labels...). The
// stream of episode n does not depend on how many workers exist or which
// episodes ran before it.
func Derive(seed uint64, labels ...interface{}) *Rand {
	h := sha256.New()
	var b [8]byte
	binary.LittleEndian.PutUint64(b[:], seed)
	h.Write(b[:])
	for _, l := range labels {
		fmt.Fprintf(h, "|%T:%v", l, l)
	}
	sum := h.Sum(nil)
	return NewRand(binary.LittleEndian.Uint64(sum[:8]) ^ binary.LittleEndian.Uint64(sum[8:16]))
}

func rotl(x uint64, k uint) uint64 { return (x << k) | (x >> (64 - k)) }

func (r *Rand) Uint64() uint64 {
	res := rotl(r.s[1]*5, 7) * 9
	t := r.s[1] << 17
	r.s[2] ^= r.s[0]
	r.s[3] ^= r.s[1]
	r.s[1] ^= r.s[2]
	r.s[0] ^= r.s[3]
	r.s[2] ^= t
	r.s[3] = rotl(r.s[3], 45)
	return res
}

// Intn returns a value in [0,n). n must be > 0.
func (r *Rand) Intn(n int) int {
	if n <= 0 {
		panic("core.Rand.Intn: n <= 0")
	}
	return int(r.Uint64() % uint64(n))
}

func (r *Rand) Uint32n(n uint32) uint32 { return uint32(r.Uint64() % uint64(n)) }

// Range returns a value in [lo,hi] inclusive.
func (r *Rand) Range(lo, hi int) int { return lo + r.Intn(hi-lo+1) }

func (r *Rand) Float() float64 { return float64(r.Uint64()>>11) / float64(1<<53) }

func (r *Rand) Chance(p float64) bool { return r.Float() < p }

func (r *Rand) Bytes(b []byte) {
	for i := 0; i < len(b); i += 8 {
		v := r.Uint64()
		for j := 0; j < 8 && i+j < len(b); j++ {
			b[i+j] = byte(v >> (8 * uint(j)))
		}
	}
}

// Pick returns an index chosen with the given non-negative weights.
func (r *Rand) Pick(weights []int) int {
	tot := 0
	for _, w := range weights {
		tot += w
	}
	if tot <= 0 {
		return 0
	}
	x := r.Intn(tot)
	for i, w := range weights {
		if x < w {
			return i
		}
		x -= w
	}
	return len(weights) - 1
}

// Perm returns a permutation of 0..n-1.
func (r *Rand) Perm(n int) []int {
	p := make([]int, n)
	for i := range p {
		p[i] = i
	}
	for i := n - 1; i > 0; i-- {
		j := r.Intn(i + 1)
		p[i], p[j] = p[j], p[i]
	}
	return p
}

// MsgBytes is the deterministic message content for (seed, length).
func MsgBytes(seed uint64, n int) []byte {
	b := make([]byte, n)
	NewRand(seed ^ 0x6d73675f62797465).Bytes(b)
	return b
}
