// Command keysim is the key-lifecycle simulator (properties C01, C02, C08, C09).
//
//	keysim check <prop> <tier>       run the batch, write evidence, report
//	keysim replay <file>             re-execute a replay file; exit 1 if it reproduces
//	keysim worker ...                (internal) worker process
//	keysim replay-raw <file>         (internal) fresh-process executor
//	keysim episode <prop> <tier> <seed> <e>   print episode e
package main

import (
	"encoding/json"
	"fmt"
	"os"
	"path/filepath"
	"strconv"

	"verif/keysim"
)

func envInt(name string, def int) int {
	if v := os.Getenv(name); v != "" {
		if n, err := strconv.Atoi(v); err == nil {
			return n
		}
	}
	return def
}

func main() {
	if len(os.Args) < 2 {
		fmt.Fprintln(os.Stderr, "usage: keysim check|replay|worker|replay-raw|episode ...")
		os.Exit(2)
	}
	self, err := os.Executable()
	if err != nil {
		fmt.Fprintln(os.Stderr, err)
		os.Exit(2)
	}
	root := os.Getenv("VERIF_ROOT")
	if root == "" {
		root = filepath.Dir(filepath.Dir(self))
	}
	switch os.Args[1] {
	case "check":
		prop, tier := os.Args[2], os.Args[3]
		seed := uint64(1)
		if v := os.Getenv("VERIF_SEED"); v != "" {
			n, err := strconv.ParseInt(v, 10, 64)
			if err != nil {
				fmt.Fprintln(os.Stderr, "VERIF_SEED must be an integer")
				os.Exit(2)
			}
			seed = uint64(n)
		}
		c := keysim.CheckConfig{Prop: prop, Tier: tier, Seed: seed, Self: self, Root: root, TreeHash: os.Getenv("VERIF_TREE_HASH"),
			Workers: envInt("VERIF_WORKERS", 16), MaxReported: 3}
		if tier == "thorough" {
			c.EpisodeLimitS = envInt("VERIF_EPISODE_LIMIT_S", 30*60)
			c.WatchdogS = envInt("VERIF_WATCHDOG_S", 3*3600)
			c.BudgetS = envInt("VERIF_BUDGET_S", 40*60)
		} else {
			c.EpisodeLimitS = envInt("VERIF_EPISODE_LIMIT_S", 150)
			c.WatchdogS = envInt("VERIF_WATCHDOG_S", 20*60)
			c.BudgetS = envInt("VERIF_BUDGET_S", 0)
		}
		os.Exit(keysim.Check(c))
	case "worker":
		seed, _ := strconv.ParseUint(os.Args[4], 10, 64)
		w, _ := strconv.Atoi(os.Args[5])
		nw, _ := strconv.Atoi(os.Args[6])
		dl, _ := strconv.ParseInt(os.Args[7], 10, 64)
		from := 0
		if len(os.Args) > 8 {
			from, _ = strconv.Atoi(os.Args[8])
		}
		keysim.Worker(os.Args[2], os.Args[3], seed, w, nw, dl, from)
	case "replay-raw":
		if err := keysim.ReplayRaw(os.Args[2]); err != nil {
			fmt.Fprintln(os.Stderr, err)
			os.Exit(2)
		}
	case "replay":
		b, err := os.ReadFile(os.Args[2])
		if err != nil {
			fmt.Fprintln(os.Stderr, err)
			os.Exit(2)
		}
		var rf keysim.ReplayFile
		if err := json.Unmarshal(b, &rf); err != nil {
			fmt.Fprintln(os.Stderr, err)
			os.Exit(2)
		}
		vs, err := keysim.ReplayFresh(self, rf.Episodes)
		if err != nil {
			fmt.Fprintln(os.Stderr, "replay:", err)
			os.Exit(2)
		}
		hit := false
		for _, v := range vs {
			mark := " "
			if v.Property == rf.Property && (rf.Oracle == "" || v.Oracle == rf.Oracle) {
				hit = true
				mark = "*"
			}
			fmt.Printf("%s %s\n", mark, v.String())
		}
		if hit {
			fmt.Printf("VIOLATION property=%s replay=%s\n", rf.Property, os.Args[2])
			os.Exit(1)
		}
		fmt.Println("replay: the recorded violation did not occur on this tree")
	case "dump":
		// determinism self-test: full per-episode event log of episodes [from,to)
		seed, _ := strconv.ParseUint(os.Args[4], 10, 64)
		from, _ := strconv.Atoi(os.Args[5])
		to, _ := strconv.Atoi(os.Args[6])
		b := keysim.NewBatch(os.Args[2], os.Args[3], seed)
		enc := json.NewEncoder(os.Stdout)
		for e := from; e < to && e < b.Len(); e++ {
			ep := b.At(e)
			fmt.Printf("%d %s ", e, ep.Digest())
			enc.Encode(keysim.Run(ep))
		}
	case "fixedlen":
		seed, _ := strconv.ParseUint(os.Args[4], 10, 64)
		fmt.Println(len(keysim.NewBatch(os.Args[2], os.Args[3], seed).Fixed))
	case "episode":
		seed, _ := strconv.ParseUint(os.Args[4], 10, 64)
		e, _ := strconv.Atoi(os.Args[5])
		ep := keysim.NewBatch(os.Args[2], os.Args[3], seed).At(e)
		enc := json.NewEncoder(os.Stdout)
		enc.SetIndent("", " ")
		enc.Encode(ep)
	default:
		fmt.Fprintln(os.Stderr, "unknown subcommand")
		os.Exit(2)
	}
}
