// Command instrument inserts a scheduler yield point before every statement of
// the library packages in a scratch copy of the repository.
//
//	instrument <repo-copy-dir> <sites.json>
//
// It splices text at AST offsets (original bytes, comments and directives are
// untouched), adds one import per file, rewrites blocking primitives
// (E.Lock(), E.RLock(), once.Do(f)) into yield-aware wrappers, classifies every
// site (G: mentions package-level state, W: writes through a pointer / slice /
// field, O: other) and refuses constructs the scheduler cannot own (go
// statements, channel operations, select, Cond/WaitGroup waits) with exit 3.
package main

import (
	"crypto/sha256"
	"encoding/hex"
	"encoding/json"
	"fmt"
	"go/ast"
	"go/parser"
	"go/token"
	"os"
	"path/filepath"
	"sort"
	"strings"
)

const simImport = "github.com/theQRL/go-qrllib/simsched"

var libPkgs = []string{"common", "misc", "qrl", "xmss", "dilithium"}

type Site struct {
	ID    int    `json:"id"`
	File  string `json:"file"`
	Line  int    `json:"line"`
	Class string `json:"class"`
	Func  string `json:"func"`
}

type splice struct {
	off  int // byte offset in the original file
	del  int // bytes of original text replaced
	text string
	ord  int
}

type Table struct {
	Hash  string `json:"hash"`
	Sites []Site `json:"sites"`
}

func main() {
	if len(os.Args) != 3 {
		fmt.Fprintln(os.Stderr, "usage: instrument <repo-copy-dir> <sites.json>")
		os.Exit(2)
	}
	root := os.Args[1]
	// pass 1: package-level variables of every library package
	globals := map[string]map[string]bool{} // pkg -> names
	onceNames := map[string]bool{}          // identifiers / fields declared as sync.Once
	type pf struct {
		pkg, path string
		fset      *token.FileSet
		file      *ast.File
		src       []byte
	}
	var files []pf
	for _, pkg := range libPkgs {
		dir := filepath.Join(root, pkg)
		ents, err := os.ReadDir(dir)
		if err != nil {
			continue
		}
		globals[pkg] = map[string]bool{}
		var names []string
		for _, e := range ents {
			n := e.Name()
			if e.IsDir() || !strings.HasSuffix(n, ".go") || strings.HasSuffix(n, "_test.go") || strings.HasPrefix(n, "verif_") {
				continue
			}
			names = append(names, n)
		}
		sort.Strings(names)
		for _, n := range names {
			p := filepath.Join(dir, n)
			src, err := os.ReadFile(p)
			if err != nil {
				fatal(err)
			}
			fset := token.NewFileSet()
			f, err := parser.ParseFile(fset, p, src, parser.ParseComments)
			if err != nil {
				fatal(err)
			}
			files = append(files, pf{pkg, p, fset, f, src})
			for _, d := range f.Decls {
				gd, ok := d.(*ast.GenDecl)
				if !ok || gd.Tok != token.VAR {
					continue
				}
				for _, s := range gd.Specs {
					vs := s.(*ast.ValueSpec)
					for _, id := range vs.Names {
						globals[pkg][id.Name] = true
						if isOnceType(vs.Type) {
							onceNames[id.Name] = true
						}
					}
				}
			}
			ast.Inspect(f, func(n ast.Node) bool {
				switch t := n.(type) {
				case *ast.Field:
					if isOnceType(t.Type) {
						for _, id := range t.Names {
							onceNames[id.Name] = true
						}
					}
				case *ast.ValueSpec:
					if isOnceType(t.Type) {
						for _, id := range t.Names {
							onceNames[id.Name] = true
						}
					}
				}
				return true
			})
		}
	}

	var table Table
	table.Sites = append(table.Sites, Site{ID: 0, File: "(call boundary)", Class: "B"})
	next := 1
	var unsupported []string
	for _, f := range files {
		rel, _ := filepath.Rel(root, f.path)
		var sp []splice
		ord := 0
		add := func(off, del int, text string) {
			sp = append(sp, splice{off, del, text, ord})
			ord++
		}
		pos := func(p token.Pos) int { return f.fset.Position(p).Offset }
		line := func(p token.Pos) int { return f.fset.Position(p).Line }
		importsOf := map[string]string{} // local name -> lib pkg
		for _, im := range f.file.Imports {
			path := strings.Trim(im.Path.Value, `"`)
			for _, lp := range libPkgs {
				if path == "github.com/theQRL/go-qrllib/"+lp {
					name := lp
					if im.Name != nil {
						name = im.Name.Name
					}
					importsOf[name] = lp
				}
			}
		}
		mentionsGlobal := func(n ast.Node) bool {
			found := false
			ast.Inspect(n, func(x ast.Node) bool {
				switch t := x.(type) {
				case *ast.BlockStmt:
					return false // nested statements have their own sites
				case *ast.FuncLit:
					return false
				case *ast.SelectorExpr:
					if id, ok := t.X.(*ast.Ident); ok {
						if lp, ok := importsOf[id.Name]; ok && globals[lp][t.Sel.Name] {
							found = true
						}
					}
				case *ast.Ident:
					if globals[f.pkg][t.Name] {
						found = true
					}
				}
				return !found
			})
			return found
		}
		writesThrough := func(s ast.Stmt) bool {
			check := func(e ast.Expr) bool {
				switch e.(type) {
				case *ast.IndexExpr, *ast.SelectorExpr, *ast.StarExpr, *ast.SliceExpr:
					return true
				}
				return false
			}
			switch t := s.(type) {
			case *ast.AssignStmt:
				for _, l := range t.Lhs {
					if check(l) {
						return true
					}
				}
			case *ast.IncDecStmt:
				return check(t.X)
			case *ast.ExprStmt:
				if c, ok := t.X.(*ast.CallExpr); ok {
					if id, ok := c.Fun.(*ast.Ident); ok && id.Name == "copy" {
						return true
					}
				}
			}
			return false
		}
		header := func(s ast.Stmt) ast.Node {
			// the part of a compound statement evaluated at the statement itself
			switch t := s.(type) {
			case *ast.IfStmt:
				return &ast.BlockStmt{} // init/cond handled below
			case *ast.ForStmt, *ast.RangeStmt, *ast.SwitchStmt, *ast.TypeSwitchStmt, *ast.SelectStmt, *ast.BlockStmt, *ast.LabeledStmt:
				_ = t
				return nil
			}
			return s
		}
		classify := func(s ast.Stmt) string {
			var parts []ast.Node
			switch t := s.(type) {
			case *ast.IfStmt:
				if t.Init != nil {
					parts = append(parts, t.Init)
				}
				parts = append(parts, t.Cond)
			case *ast.ForStmt:
				for _, p := range []ast.Node{t.Init, t.Cond, t.Post} {
					if p != nil && !isNilNode(p) {
						parts = append(parts, p)
					}
				}
			case *ast.RangeStmt:
				parts = append(parts, t.X)
			case *ast.SwitchStmt:
				if t.Init != nil {
					parts = append(parts, t.Init)
				}
				if t.Tag != nil {
					parts = append(parts, t.Tag)
				}
			case *ast.LabeledStmt:
				parts = append(parts, t.Stmt)
			default:
				if h := header(s); h != nil {
					parts = append(parts, h)
				}
			}
			g, w := false, false
			for _, p := range parts {
				if mentionsGlobal(p) {
					g = true
				}
				if st, ok := p.(ast.Stmt); ok && writesThrough(st) {
					w = true
				}
			}
			switch {
			case g:
				return "G"
			case w:
				return "W"
			}
			return "O"
		}
		curFunc := ""
		var visitList func(list []ast.Stmt)
		site := func(s ast.Stmt, at token.Pos) {
			table.Sites = append(table.Sites, Site{ID: next, File: rel, Line: line(s.Pos()), Class: classify(s), Func: curFunc})
			add(pos(at), 0, fmt.Sprintf("simsched.Y(%d); ", next))
			next++
		}
		visitList = func(list []ast.Stmt) {
			for _, s := range list {
				if ls, ok := s.(*ast.LabeledStmt); ok {
					switch ls.Stmt.(type) {
					case *ast.ForStmt, *ast.RangeStmt, *ast.SwitchStmt, *ast.TypeSwitchStmt, *ast.SelectStmt:
						site(s, s.Pos()) // keep the label attached to its loop
					default:
						site(s, ls.Stmt.Pos()) // goto target: yield after the label
					}
				} else {
					site(s, s.Pos())
				}
			}
		}
		rewroteSync := false
		inSelect := map[ast.Node]bool{} // communications of a select: rewritten with the select itself
		inMake := map[*ast.ChanType]bool{}
		recv2 := map[*ast.UnaryExpr]bool{}
		// names declared with a channel type or assigned from make(chan ...)
		chanNames := map[string]bool{}
		ast.Inspect(f.file, func(n ast.Node) bool {
			switch t := n.(type) {
			case *ast.Field:
				if _, ok := t.Type.(*ast.ChanType); ok {
					for _, id := range t.Names {
						chanNames[id.Name] = true
					}
				}
			case *ast.ValueSpec:
				if _, ok := t.Type.(*ast.ChanType); ok {
					for _, id := range t.Names {
						chanNames[id.Name] = true
					}
				}
				for i, v := range t.Values {
					if isMakeChan(v) && i < len(t.Names) {
						chanNames[t.Names[i].Name] = true
					}
				}
			case *ast.AssignStmt:
				for i, v := range t.Rhs {
					if isMakeChan(v) && i < len(t.Lhs) {
						chanNames[lastIdent(t.Lhs[i])] = true
					}
				}
			}
			return true
		})
		clauseBlocks := map[*ast.BlockStmt]bool{} // bodies that hold case clauses, not statements
		ast.Inspect(f.file, func(n ast.Node) bool {
			switch t := n.(type) {
			case *ast.FuncDecl:
				curFunc = t.Name.Name
			case *ast.SwitchStmt:
				clauseBlocks[t.Body] = true
			case *ast.TypeSwitchStmt:
				clauseBlocks[t.Body] = true
			case *ast.BlockStmt:
				if !clauseBlocks[t] {
					visitList(t.List)
				}
			case *ast.CaseClause:
				visitList(t.Body)
			case *ast.CommClause:
				visitList(t.Body)
			case *ast.GoStmt:
				// `go F(a, b)` -> `simsched.Go2(F, a, b)`: the goroutine becomes a
				// scheduler task; F and the arguments are still evaluated here
				c := t.Call
				if len(c.Args) > 6 || c.Ellipsis.IsValid() {
					unsupported = append(unsupported, fmt.Sprintf("%s:%d: go statement with more than 6 or variadic arguments", rel, line(t.Pos())))
					break
				}
				add(pos(t.Pos()), pos(c.Fun.Pos())-pos(t.Pos()), fmt.Sprintf("simsched.Go%d(", len(c.Args)))
				if len(c.Args) == 0 {
					add(pos(c.Lparen), 1, "")
				} else {
					add(pos(c.Lparen), 1, ", ")
				}
			case *ast.SendStmt: // c <- v  ->  c.Send(v)
				if inSelect[t] {
					break
				}
				add(pos(t.Arrow), 2, ".Send(")
				add(pos(t.End()), 0, ")")
			case *ast.ChanType: // chan T -> *simsched.Chan[T] (except inside make, handled there)
				if !inMake[t] {
					add(pos(t.Pos()), pos(t.Value.Pos())-pos(t.Pos()), "*simsched.Chan[")
					add(pos(t.Value.End()), 0, "]")
				}
			case *ast.AssignStmt: // v, ok := <-c  ->  v, ok := c.Recv2()
				if inSelect[t] {
					break
				}
				if len(t.Lhs) == 2 && len(t.Rhs) == 1 {
					if u, ok := t.Rhs[0].(*ast.UnaryExpr); ok && u.Op == token.ARROW {
						recv2[u] = true
					}
				}
			case *ast.RangeStmt:
				// for v := range ch {  ->  for { v, ok_ := ch.Recv2(); if !ok_ { break };
				if chanNames[lastIdent(t.X)] {
					x := string(f.src[pos(t.X.Pos()):pos(t.X.End())])
					k := "_"
					if t.Key != nil {
						k = string(f.src[pos(t.Key.Pos()):pos(t.Key.End())])
					}
					head := fmt.Sprintf("for { %s, verifOK := %s.Recv2(); if !verifOK { break }; ", k, x)
					if t.Tok == token.ASSIGN {
						head = fmt.Sprintf("for { var verifOK bool; %s, verifOK = %s.Recv2(); if !verifOK { break }; ", k, x)
					}
					add(pos(t.For), pos(t.Body.Lbrace)+1-pos(t.For), head)
				}
			case *ast.SelectStmt:
				// select { case c <- v: A; case x, ok := <-d: B; default: C }
				//   -> { r1 := simsched.RecvCase(d); switch simsched.Select(true, simsched.SendCase(c, v), r1) {
				//        case 0: A; case 1: x, ok := r1.V, r1.OK; B; default: C } }
				clauseBlocks[t.Body] = true
				selN := next
				var prelude, args []string
				hasDefault := "false"
				idx := 0
				for _, cl := range t.Body.List {
					cc := cl.(*ast.CommClause)
					if cc.Comm == nil {
						hasDefault = "true"
						continue
					}
					txt := func(n ast.Node) string { return string(f.src[pos(n.Pos()):pos(n.End())]) }
					head := fmt.Sprintf("case %d:", idx)
					switch c := cc.Comm.(type) {
					case *ast.SendStmt:
						inSelect[c] = true
						args = append(args, fmt.Sprintf("simsched.SendCase(%s, %s)", txt(c.Chan), txt(c.Value)))
					case *ast.ExprStmt: // case <-c:
						u := c.X.(*ast.UnaryExpr)
						inSelect[u] = true
						args = append(args, fmt.Sprintf("simsched.RecvCase(%s)", txt(u.X)))
					case *ast.AssignStmt: // case v[, ok] := <-c  /  case v[, ok] = <-c
						u := c.Rhs[0].(*ast.UnaryExpr)
						inSelect[u] = true
						inSelect[c] = true
						h := fmt.Sprintf("verifSel%d_%d", selN, idx)
						prelude = append(prelude, fmt.Sprintf("%s := simsched.RecvCase(%s); ", h, txt(u.X)))
						args = append(args, h)
						lhs := txt(c.Lhs[0])
						rhs := h + ".V"
						if len(c.Lhs) == 2 {
							lhs += ", " + txt(c.Lhs[1])
							rhs += ", " + h + ".OK"
						}
						head += fmt.Sprintf(" %s %s %s;", lhs, c.Tok.String(), rhs)
					}
					add(pos(cc.Case), pos(cc.Colon)+1-pos(cc.Case), head)
					idx++
				}
				add(pos(t.Select), pos(t.Body.Lbrace)+1-pos(t.Select), fmt.Sprintf("{ %sswitch simsched.Select(%s, %s) {", strings.Join(prelude, ""), hasDefault, strings.Join(args, ", ")))
				add(pos(t.Body.Rbrace)+1, 0, " }")
			case *ast.UnaryExpr: // <-c  ->  c.Recv()
				if t.Op == token.ARROW && !inSelect[t] {
					add(pos(t.OpPos), 2, "")
					if recv2[t] {
						add(pos(t.X.End()), 0, ".Recv2()")
					} else {
						add(pos(t.X.End()), 0, ".Recv()")
					}
				}
			case *ast.SelectorExpr:
				if id, ok := t.X.(*ast.Ident); ok && id.Name == "sync" && t.Sel.Name == "WaitGroup" {
					add(pos(t.Pos()), pos(t.End())-pos(t.Pos()), "simsched.WaitGroup")
					rewroteSync = true
				}
				if id, ok := t.X.(*ast.Ident); ok && id.Name == "sync" && t.Sel.Name == "Cond" {
					unsupported = append(unsupported, fmt.Sprintf("%s:%d: sync.Cond inside the library", rel, line(t.Pos())))
				}
			case *ast.CallExpr:
				if id, ok := t.Fun.(*ast.Ident); ok && id.Name == "make" && len(t.Args) >= 1 {
					if ct, ok := t.Args[0].(*ast.ChanType); ok { // make(chan T, n) -> simsched.MakeChan[T](n)
						inMake[ct] = true
						add(pos(t.Pos()), pos(ct.Value.Pos())-pos(t.Pos()), "simsched.MakeChan[")
						if len(t.Args) >= 2 {
							add(pos(ct.Value.End()), pos(t.Args[1].Pos())-pos(ct.Value.End()), "](")
						} else {
							add(pos(ct.Value.End()), pos(t.Rparen)-pos(ct.Value.End()), "](0")
						}
					}
				}
				if id, ok := t.Fun.(*ast.Ident); ok && id.Name == "close" && len(t.Args) == 1 { // close(c) -> c.Close()
					add(pos(t.Pos()), pos(t.Args[0].Pos())-pos(t.Pos()), "")
					add(pos(t.Args[0].End()), pos(t.End())-pos(t.Args[0].End()), ".Close()")
				}
				sel, ok := t.Fun.(*ast.SelectorExpr)
				if !ok {
					break
				}
				recv := string(f.src[pos(sel.X.Pos()):pos(sel.X.End())])
				switch {
				case (sel.Sel.Name == "Lock" || sel.Sel.Name == "RLock") && len(t.Args) == 0:
					try := "TryLock"
					if sel.Sel.Name == "RLock" {
						try = "TryRLock"
					}
					add(pos(t.Pos()), pos(t.End())-pos(t.Pos()), fmt.Sprintf("simsched.Spin(func() bool { return %s.%s() })", recv, try))
				case sel.Sel.Name == "Do" && len(t.Args) == 1 && onceNames[lastIdent(sel.X)]:
					// only the head is replaced: the argument (often a func literal
					// with statements of its own) keeps its yield points
					add(pos(t.Pos()), pos(t.Lparen)+1-pos(t.Pos()), fmt.Sprintf("simsched.OnceDo(&%s, ", recv))
				}
			}
			return true
		})
		if len(sp) == 0 {
			continue
		}
		add(pos(f.file.Name.End()), 0, fmt.Sprintf("; import simsched %q", simImport))
		if rewroteSync { // keep the file's "sync" import used
			add(len(f.src), 0, "\nvar _ sync.Locker\n")
		}
		// apply splices back to front; nested rewrites (a Lock inside a
		// rewritten argument) do not occur with these patterns
		sort.SliceStable(sp, func(i, j int) bool {
			if sp[i].off != sp[j].off {
				return sp[i].off > sp[j].off
			}
			return sp[i].ord > sp[j].ord
		})
		out := append([]byte(nil), f.src...)
		for _, s := range sp {
			out = append(out[:s.off], append([]byte(s.text), out[s.off+s.del:]...)...)
		}
		if err := os.WriteFile(f.path, out, 0o644); err != nil {
			fatal(err)
		}
	}
	if len(unsupported) > 0 {
		for _, u := range unsupported {
			fmt.Fprintln(os.Stderr, "instrument: unsupported construct: "+u)
		}
		os.Exit(3)
	}
	h := sha256.New()
	for _, s := range table.Sites {
		fmt.Fprintf(h, "%d|%s|%d|%s\n", s.ID, s.File, s.Line, s.Class)
	}
	table.Hash = hex.EncodeToString(h.Sum(nil))[:16]
	b, _ := json.Marshal(&table)
	if err := os.WriteFile(os.Args[2], b, 0o644); err != nil {
		fatal(err)
	}
	fmt.Printf("instrument: %d sites in %d files, table %s\n", len(table.Sites)-1, len(files), table.Hash)
}

func isMakeChan(e ast.Expr) bool {
	c, ok := e.(*ast.CallExpr)
	if !ok || len(c.Args) == 0 {
		return false
	}
	id, ok := c.Fun.(*ast.Ident)
	if !ok || id.Name != "make" {
		return false
	}
	_, ok = c.Args[0].(*ast.ChanType)
	return ok
}

func isNilNode(n ast.Node) bool {
	switch t := n.(type) {
	case ast.Stmt:
		return t == nil
	case ast.Expr:
		return t == nil
	}
	return n == nil
}

func isOnceType(e ast.Expr) bool {
	if e == nil {
		return false
	}
	if st, ok := e.(*ast.StarExpr); ok {
		e = st.X
	}
	s, ok := e.(*ast.SelectorExpr)
	if !ok {
		return false
	}
	id, ok := s.X.(*ast.Ident)
	return ok && id.Name == "sync" && s.Sel.Name == "Once"
}

func lastIdent(e ast.Expr) string {
	switch t := e.(type) {
	case *ast.Ident:
		return t.Name
	case *ast.SelectorExpr:
		return t.Sel.Name
	case *ast.ParenExpr:
		return lastIdent(t.X)
	case *ast.StarExpr:
		return lastIdent(t.X)
	case *ast.UnaryExpr:
		return lastIdent(t.X)
	}
	return ""
}

func fatal(err error) {
	fmt.Fprintln(os.Stderr, "instrument:", err)
	os.Exit(2)
}
