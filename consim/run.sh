#!/bin/bash
# consim driver:  consim/run.sh <quick|thorough>   |   consim/run.sh replay <file>
# Copies the current /repo tree to a scratch directory outside /repo and /verif,
# instruments it, builds the harness (plain and -race) against the copy, runs,
# and removes the scratch directory on every exit path.
set -u
ROOT="$(cd "$(dirname "${BASH_SOURCE[0]}")/.." && pwd)"
cd "$ROOT" || exit 2
export GOFLAGS=-mod=mod GOPROXY=off GOSUMDB=off GOTOOLCHAIN=local GOWORK=off
export VERIF_ROOT="$ROOT"
REPO="${VERIF_REPO:-/repo}"
BIN="${VERIF_BIN:-$ROOT/bin}"
mode="${1:-quick}"

S="$(mktemp -d /tmp/consim-XXXXXX)" || exit 2
trap 'rm -rf "$S"' EXIT
inconclusive() {
	echo "consim: INCONCLUSIVE: $*" >&2
	exit 2
}

rsync -a --exclude .git --exclude qrllib-js "$REPO/" "$S/repo/" || inconclusive "cannot copy $REPO"
mkdir -p "$S/repo/simsched" "$BIN"
cp "$ROOT/consim/simsched/simsched.go" "$S/repo/simsched/" || inconclusive "cannot install simsched"
go build -o "$BIN/instrument" ./cmd/instrument 2>"$S/build.log" || { cat "$S/build.log" >&2; inconclusive "instrumenter does not build"; }
"$BIN/instrument" "$S/repo" "$S/sites.json" >"$S/instr.log" 2>&1
rc=$?
if [ $rc -ne 0 ]; then
	cat "$S/instr.log" >&2
	inconclusive "instrumentation failed (status $rc)"
fi
sed "s#=> /repo#=> $S/repo#" "$ROOT/go.mod" >"$S/go.mod"
cp "$ROOT/go.sum" "$S/go.sum"
if ! go build -modfile="$S/go.mod" -tags "verif consim" -o "$S/consim" ./consim/harness 2>"$S/build.log"; then
	cat "$S/build.log" >&2
	inconclusive "harness does not build against the instrumented tree"
fi
if ! go build -race -modfile="$S/go.mod" -tags "verif consim" -o "$S/consim-race" ./consim/harness 2>"$S/build.log"; then
	cat "$S/build.log" >&2
	inconclusive "race build of the harness failed"
fi
export CONSIM_SITES="$S/sites.json" CONSIM_BIN_PLAIN="$S/consim" CONSIM_BIN_RACE="$S/consim-race"
export VERIF_TREE_HASH="$(cd "$REPO" && find . -name '*.go' -not -path './.git/*' -not -name '*_test.go' -print0 | sort -z | xargs -0 sha256sum | sha256sum | cut -c1-16)"
export TMPDIR="$S"
if [ "$mode" = "exec" ]; then
	shift
	"$@"
	exit $?
fi
if [ "$mode" = "replay" ]; then
	"$S/consim" replay "${2:?replay file}"
	exit $?
fi
"$S/consim" check "$mode"
exit $?
