//go:build consim

package main

import (
	"bufio"
	"encoding/json"
	"fmt"
	"os"
	"os/exec"
	"path/filepath"
	"sort"
	"strconv"
	"strings"
	"sync"
	"time"

	"github.com/theQRL/go-qrllib/simsched"

	"verif/core"
)

func envOr(k, d string) string {
	if v := os.Getenv(k); v != "" {
		return v
	}
	return d
}
func envInt(k string, d int) int {
	if v := os.Getenv(k); v != "" {
		if n, err := strconv.Atoi(v); err == nil {
			return n
		}
	}
	return d
}

type wspec struct {
	race   bool
	w, nw  int
	offset int // episode index offset of this group
	n, k   int
}

type foundV struct {
	w, nw, k  int  // worker share (first episode, stride, plans per episode)
	warmAlone bool // found by comparing a long-lived worker's result with a run-alone reference
	run  int
	e    int
	cold bool
	race bool
	v    Violation
	plan *simsched.Plan
	log  string
}

type aggT struct {
	mu         sync.Mutex
	episodes   int64
	runs       int64
	raceRuns   int64
	yields     uint64
	switches   uint64
	midcall    uint64
	traces     map[uint64]bool
	nontrivial map[uint64]bool
	byClass    [4]uint64
	sitesHit   map[int]bool
	sitesExec  int
	strategies core.Counter
	kinds      core.Counter
	pairs      map[string]bool
	found      []foundV
	failed     []string
	aloneRefs    int64
	coldEpisodes int64
	coldMidcall  int64
}

const raceOffset = 1000000

func runWorker(a *aggT, s wspec, tier string, seed uint64, deadline int64, sites string, watchdog time.Duration, scratch string) {
	bin := os.Getenv("CONSIM_BIN_PLAIN")
	if s.race {
		bin = os.Getenv("CONSIM_BIN_RACE")
	}
	// worker index space: e = offset + w, offset + w + nw, ...
	cmd := exec.Command(bin, "worker", tier, strconv.FormatUint(seed, 10), strconv.Itoa(s.offset+s.w), strconv.Itoa(s.nw), strconv.FormatInt(deadline, 10), sites, strconv.Itoa(s.offset+s.n), strconv.Itoa(s.k))
	logp := filepath.Join(scratch, fmt.Sprintf("race-%d", s.w))
	cmd.Env = append(os.Environ(), "GORACE=halt_on_error=1 exitcode=66 log_path="+logp)
	cmd.Stderr = os.Stderr
	stdout, err := cmd.StdoutPipe()
	if err != nil || cmd.Start() != nil {
		a.mu.Lock()
		a.failed = append(a.failed, fmt.Sprintf("cannot start worker: %v", err))
		a.mu.Unlock()
		return
	}
	timer := time.AfterFunc(watchdog, func() { cmd.Process.Kill() })
	defer timer.Stop()
	sc := bufio.NewScanner(stdout)
	sc.Buffer(make([]byte, 1<<20), 1<<27)
	var last *epReport
	done := false
	for sc.Scan() {
		var r epReport
		if err := json.Unmarshal(sc.Bytes(), &r); err != nil {
			continue
		}
		if r.Begin {
			rr := r
			last = &rr
			continue
		}
		if r.Done {
			done = true
			continue
		}
		a.mu.Lock()
		a.episodes++
		a.runs += int64(r.Runs)
		if s.race {
			a.raceRuns += int64(r.Runs)
		}
		a.yields += r.Yields
		a.switches += r.Switches
		a.midcall += r.MidCall
		for _, t := range r.Traces {
			a.traces[t] = true
		}
		for _, t := range r.Nontrivial {
			a.nontrivial[t] = true
		}
		for i := range a.byClass {
			a.byClass[i] += r.ByClass[i]
		}
		for _, sh := range r.SitesHit {
			a.sitesHit[sh] = true
		}
		if r.SitesExec > a.sitesExec {
			a.sitesExec = r.SitesExec
		}
		a.strategies.Merge(r.Strategies)
		a.kinds.Merge(r.Kinds)
		for _, p := range r.Pairs {
			a.pairs[p] = true
		}
		for _, v := range r.Violations {
			a.found = append(a.found, foundV{e: r.E, run: r.FailRun, race: s.race, v: v, plan: r.Plan, w: s.offset + s.w, nw: s.nw, k: s.k})
		}
		a.mu.Unlock()
		if len(r.BaseA) > 0 && len(r.Violations) == 0 && !s.race {
			aloneCheck(a, seed, tier == "thorough", r.E, r.BaseA, sites)
		}
	}
	err = cmd.Wait()
	code := 0
	if ee, ok := err.(*exec.ExitError); ok {
		code = ee.ExitCode()
	}
	a.mu.Lock()
	defer a.mu.Unlock()
	switch {
	case code == 66 && last != nil:
		logs, _ := filepath.Glob(logp + ".*")
		txt := ""
		for _, l := range logs {
			b, _ := os.ReadFile(l)
			txt += string(b)
		}
		a.found = append(a.found, foundV{e: last.E, run: last.Run, race: true, plan: last.Plan, log: txt,
			v: Violation{Property: "C15", Oracle: "race-report", Where: fmt.Sprintf("episode %d run %d", last.E, last.Run), Detail: raceSummary(txt), Signature: "race-report:" + raceSummary(txt)}})
	case err != nil || !done:
		a.failed = append(a.failed, fmt.Sprintf("worker (race=%v, w=%d) ended abnormally: err=%v completed=%v (watchdog, crash or unsupported blocking construct)", s.race, s.w, err, done))
	}
}

// raceSummary extracts the two conflicting accesses of the first report: kind
// of access and the innermost frame that is not in package runtime.
func raceSummary(txt string) string {
	var locs []string
	lines := strings.Split(txt, "\n")
	for i, l := range lines {
		t := strings.TrimSpace(l)
		if !(strings.HasPrefix(t, "Write at") || strings.HasPrefix(t, "Read at") || strings.HasPrefix(t, "Previous write at") || strings.HasPrefix(t, "Previous read at")) {
			continue
		}
		fn := "?"
		for j := i + 1; j < len(lines) && strings.TrimSpace(lines[j]) != ""; j += 2 {
			f := strings.TrimSpace(lines[j])
			if k := strings.Index(f, "("); k > 0 {
				f = f[:k]
			}
			if k := strings.LastIndex(f, "/"); k >= 0 {
				f = f[k+1:]
			}
			fn = f
			if !strings.HasPrefix(f, "runtime.") {
				break
			}
		}
		kind := strings.ToLower(strings.Fields(strings.TrimPrefix(t, "Previous "))[0])
		locs = append(locs, kind+" in "+fn)
		if len(locs) == 2 {
			break
		}
	}
	if len(locs) == 0 {
		return "data race (no locations parsed)"
	}
	sort.Strings(locs)
	return strings.Join(locs, " vs ")
}

// replayFresh runs a replay file in a fresh process of the right build.
func replayFresh(rf *ReplayFile, sites string, timeout time.Duration) (vs []Violation, raced bool, racelog string, err error) {
	if rf.WarmAlone {
		// re-run the worker's share up to and including the episode, then compare
		// its sequential results with run-alone references
		out, code, err := runProc(timeout, nil, os.Getenv("CONSIM_BIN_PLAIN"), "worker", rf.Tier, strconv.FormatUint(rf.Seed, 10), strconv.Itoa(rf.WorkerW), strconv.Itoa(rf.WorkerNW), "0", sites, strconv.Itoa(rf.EpisodeIndex+1), strconv.Itoa(rf.WorkerK))
		if err != nil || code != 0 {
			return nil, false, "", fmt.Errorf("worker re-run failed: code=%d err=%v", code, err)
		}
		tmp := &aggT{traces: map[uint64]bool{}, nontrivial: map[uint64]bool{}, sitesHit: map[int]bool{}, strategies: core.Counter{}, kinds: core.Counter{}, pairs: map[string]bool{}}
		for _, l := range strings.Split(out, "\n") {
			var r epReport
			if json.Unmarshal([]byte(l), &r) != nil || r.Begin || r.Done || r.E != rf.EpisodeIndex || len(r.BaseA) == 0 {
				continue
			}
			aloneCheck(tmp, rf.Seed, rf.Tier == "thorough", r.E, r.BaseA, sites)
		}
		for _, f := range tmp.found {
			vs = append(vs, f.v)
		}
		return vs, false, "", nil
	}
	if rf.Mode == "worker" {
		bin := os.Getenv("CONSIM_BIN_PLAIN")
		if rf.Race {
			bin = os.Getenv("CONSIM_BIN_RACE")
		}
		out, code, err := runProc(timeout, nil, bin, "worker", rf.Tier, strconv.FormatUint(rf.Seed, 10), strconv.Itoa(rf.WorkerW), strconv.Itoa(rf.WorkerNW), "0", sites, strconv.Itoa(rf.EpisodeIndex+1), strconv.Itoa(rf.WorkerK))
		if err != nil || (code != 0 && code != 66) {
			return nil, false, "", fmt.Errorf("worker re-run failed: code=%d err=%v", code, err)
		}
		for _, l := range strings.Split(out, "\n") {
			var r epReport
			if json.Unmarshal([]byte(l), &r) == nil && !r.Begin && !r.Done && r.E == rf.EpisodeIndex {
				vs = append(vs, r.Violations...)
			}
		}
		return vs, code == 66, "", nil
	}
	if rf.Cold {
		fix, err := coldFixtures(rf.Episode.FixSeed)
		if err != nil {
			return nil, false, "", err
		}
		co, raced, rlog, err := coldEpisode(rf.Episode, rf.Plan, fix, sites, rf.Race, timeout)
		if err != nil {
			return nil, false, rlog, err
		}
		if co != nil {
			vs = co.Viol
		}
		return vs, raced, rlog, nil
	}
	f, err := os.CreateTemp("", "consim-replay-*.json")
	if err != nil {
		return nil, false, "", err
	}
	defer os.Remove(f.Name())
	json.NewEncoder(f).Encode(rf)
	f.Close()
	bin := os.Getenv("CONSIM_BIN_PLAIN")
	if rf.Race {
		bin = os.Getenv("CONSIM_BIN_RACE")
	}
	logp := f.Name() + ".race"
	cmd := exec.Command(bin, "replay-raw", f.Name(), sites)
	cmd.Env = append(os.Environ(), "GORACE=halt_on_error=1 exitcode=66 log_path="+logp)
	var out strings.Builder
	cmd.Stdout = &out
	if err := cmd.Start(); err != nil {
		return nil, false, "", err
	}
	done := make(chan error, 1)
	go func() { done <- cmd.Wait() }()
	select {
	case err = <-done:
	case <-time.After(timeout):
		cmd.Process.Kill()
		<-done
		return nil, false, "", fmt.Errorf("timeout")
	}
	logs, _ := filepath.Glob(logp + ".*")
	for _, l := range logs {
		b, _ := os.ReadFile(l)
		racelog += string(b)
		os.Remove(l)
	}
	if ee, ok := err.(*exec.ExitError); ok {
		if ee.ExitCode() == 66 {
			return nil, true, racelog, nil
		}
		return nil, false, racelog, fmt.Errorf("replay process exit %d", ee.ExitCode())
	}
	if err != nil {
		return nil, false, racelog, err
	}
	json.Unmarshal([]byte(out.String()), &vs)
	return vs, false, racelog, nil
}

// reproduces re-executes the file in a fresh process. The schedule is exactly
// repeatable; what is not is the race detector's memory of old accesses (its
// shadow cells are evicted pseudo-randomly), so a report whose two accesses are
// far apart may be missed on one execution. For the race oracle a candidate
// therefore only counts if it is reported on every one of `need` executions.
func reproduces(rf *ReplayFile, sites string) bool { return reproducesN(rf, sites, 3) }

func reproducesN(rf *ReplayFile, sites string, need int) bool {
	if rf.Oracle == "race-report" {
		for i := 0; i < need; i++ {
			_, raced, _, err := replayFresh(rf, sites, 5*time.Minute)
			if err != nil || !raced {
				return false
			}
		}
		return true
	}
	vs, _, _, err := replayFresh(rf, sites, 5*time.Minute)
	if err != nil {
		return false
	}
	for _, v := range vs {
		if v.Oracle == rf.Oracle {
			return true
		}
	}
	return false
}

var coldFixMu sync.Mutex

// coldFixtures writes the data-only fixtures for a seed once per check.
func coldFixtures(fixSeed uint64) (string, error) {
	coldFixMu.Lock()
	defer coldFixMu.Unlock()
	path := filepath.Join(filepath.Dir(os.Getenv("CONSIM_SITES")), fmt.Sprintf("coldfix-%d.json", fixSeed))
	if _, err := os.Stat(path); err == nil {
		return path, nil
	}
	out, err := exec.Command(os.Getenv("CONSIM_BIN_PLAIN"), "fixgen", strconv.FormatUint(fixSeed, 10), path, os.Getenv("CONSIM_SITES")).CombinedOutput()
	if err != nil {
		return "", fmt.Errorf("fixgen: %v: %s", err, out)
	}
	return path, nil
}

func runProc(timeout time.Duration, env []string, bin string, args ...string) (string, int, error) {
	cmd := exec.Command(bin, args...)
	cmd.Env = append(os.Environ(), env...)
	var out strings.Builder
	cmd.Stdout = &out
	cmd.Stderr = os.Stderr
	if err := cmd.Start(); err != nil {
		return "", -1, err
	}
	done := make(chan error, 1)
	go func() { done <- cmd.Wait() }()
	select {
	case err := <-done:
		if ee, ok := err.(*exec.ExitError); ok {
			return out.String(), ee.ExitCode(), nil
		}
		return out.String(), 0, err
	case <-time.After(timeout):
		cmd.Process.Kill()
		<-done
		return "", -1, fmt.Errorf("timeout")
	}
}

// aloneCheck: a long-lived worker process has a history (all earlier episodes).
// Every stateless call of a warm episode's sequential baseline is compared with
// the same call run truly alone - a fresh process of its own, fixtures loaded as
// data - "regardless of what other calls ran before". References are memoised
// per (fixture set, call).
func aloneCheck(a *aggT, seed uint64, thorough bool, e int, baseA [][]string, sites string) {
	ep := genEpisode(seed, e, thorough)
	fix, err := coldFixtures(ep.FixSeed)
	if err != nil {
		return
	}
	cold := map[string]bool{}
	for _, k := range coldKinds {
		cold[k] = true
	}
	for t, calls := range ep.Tasks {
		for i, c := range calls {
			if !cold[c.K] || c.K == "dnewrand" || t >= len(baseA) || i >= len(baseA[t]) {
				continue
			}
			// one fresh process per distinct call (memoised per fixture set)
			key := fmt.Sprintf("%d|%s|%d|%d", ep.FixSeed, c.K, c.A, c.B)
			aloneMu.Lock()
			alone, ok := aloneMemo[key]
			aloneMu.Unlock()
			if !ok {
				one, _ := json.Marshal(&Episode{FixSeed: ep.FixSeed, EntSeed: ep.EntSeed, Tasks: [][]Call{{c}}})
				o, code, err := runProc(5*time.Minute, nil, os.Getenv("CONSIM_BIN_PLAIN"), "cold-ref", string(one), fix, sites)
				var oo coldOut
				if err != nil || code != 0 || json.Unmarshal([]byte(o), &oo) != nil || len(oo.Results) != 1 || len(oo.Results[0]) != 1 {
					continue
				}
				alone = oo.Results[0][0]
				aloneMu.Lock()
				aloneMemo[key] = alone
				aloneMu.Unlock()
			}
			a.mu.Lock()
			a.aloneRefs++
			if alone != baseA[t][i] {
				a.found = append(a.found, foundV{e: e, warmAlone: true, v: Violation{Property: "C15", Oracle: "history-dependent-result", Where: fmt.Sprintf("episode %d task%d/call%d", e, t, i),
					Detail:    fmt.Sprintf("%s: alone in a fresh process %s, in a worker process that had run other calls before %s", c.K, short(alone), short(baseA[t][i])),
					Signature: "history-dependent-result:long-history:" + c.K}})
			}
			a.mu.Unlock()
		}
	}
}

var (
	aloneMu   sync.Mutex
	aloneMemo = map[string]string{}
)

var coldSeq int64

// coldEpisode: reference in one fresh process, scheduled first use in another.
func coldEpisode(ep *Episode, plan *simsched.Plan, fix, sites string, race bool, timeout time.Duration, planRng ...*core.Rand) (*coldOut, bool, string, error) {
	epj, _ := json.Marshal(ep)
	plj, _ := json.Marshal(plan)
	var planRngv *core.Rand
	if len(planRng) > 0 {
		planRngv = planRng[0]
	}
	_ = planRngv
	ref, code, err := runProc(timeout, nil, os.Getenv("CONSIM_BIN_PLAIN"), "cold-ref", string(epj), fix, sites)
	if err != nil || code != 0 {
		return nil, false, "", fmt.Errorf("cold reference process failed: code=%d err=%v", code, err)
	}
	// "the result it returns when run alone", literally: every call once more,
	// each in a process of its own that does nothing else (calls that draw
	// entropy are left to the sequential reference: their stream position
	// depends on the calls before them)
	var refOut coldOut
	if json.Unmarshal([]byte(ref), &refOut) == nil {
		if plan == nil {
			// aim at statements the calls really execute (counts from the reference run)
			st := loadSites(sites)
			counts := make([][]uint32, len(ep.Tasks))
			for t := range counts {
				counts[t] = make([]uint32, len(st.Sites))
				if t < len(refOut.Counts) {
					for _, sc := range refOut.Counts[t] {
						if int(sc[0]) < len(st.Sites) {
							counts[t][sc[0]] = sc[1]
						}
					}
				}
			}
			plan = genPlan(planRngv, ep, st, counts, refOut.Stats.Yields)
			plj, _ = json.Marshal(plan)
		}
		refOut.Counts = nil
		alone := make([][]string, len(ep.Tasks))
		for t, calls := range ep.Tasks {
			alone[t] = make([]string, len(calls))
			for i, c := range calls {
				if c.K == "dnewrand" {
					continue
				}
				key := fmt.Sprintf("%d|%s|%d|%d", ep.FixSeed, c.K, c.A, c.B)
				aloneMu.Lock()
				memo, ok := aloneMemo[key]
				aloneMu.Unlock()
				if ok {
					alone[t][i] = memo
					continue
				}
				one, _ := json.Marshal(&Episode{FixSeed: ep.FixSeed, EntSeed: ep.EntSeed, Tasks: [][]Call{{c}}})
				o, code, err := runProc(timeout, nil, os.Getenv("CONSIM_BIN_PLAIN"), "cold-ref", string(one), fix, sites)
				var oo coldOut
				if err != nil || code != 0 || json.Unmarshal([]byte(o), &oo) != nil || len(oo.Results) != 1 || len(oo.Results[0]) != 1 {
					return nil, false, "", fmt.Errorf("single-call reference process failed: code=%d err=%v", code, err)
				}
				alone[t][i] = oo.Results[0][0]
				aloneMu.Lock()
				aloneMemo[key] = alone[t][i]
				aloneMu.Unlock()
			}
		}
		refOut.Alone = alone
		b, _ := json.Marshal(&refOut)
		ref = string(b)
	}
	bin := os.Getenv("CONSIM_BIN_PLAIN")
	if race {
		bin = os.Getenv("CONSIM_BIN_RACE")
	}
	coldFixMu.Lock()
	coldSeq++
	logp := filepath.Join(filepath.Dir(sites), fmt.Sprintf("coldrace-%d", coldSeq))
	coldFixMu.Unlock()
	out, code, err := runProc(timeout, []string{"GORACE=halt_on_error=1 exitcode=66 log_path=" + logp}, bin, "cold-run", string(epj), string(plj), fix, sites, ref)
	rlog := ""
	logs, _ := filepath.Glob(logp + ".*")
	for _, l := range logs {
		b, _ := os.ReadFile(l)
		rlog += string(b)
		os.Remove(l)
	}
	if err != nil {
		return nil, false, rlog, err
	}
	if code == 66 {
		return nil, true, rlog, nil
	}
	if code != 0 {
		return nil, false, rlog, fmt.Errorf("cold run process exit %d", code)
	}
	co := &coldOut{}
	if err := json.Unmarshal([]byte(out), co); err != nil {
		return nil, false, rlog, fmt.Errorf("cold run output: %v", err)
	}
	return co, false, rlog, nil
}

func runCold(a *aggT, seed uint64, slot, nslots, n int, deadline int64, sites string, st *Sites) {
	for e := slot; e < n; e += nslots {
		if deadline > 0 && time.Now().Unix() >= deadline {
			return
		}
		ep := genColdEpisode(seed, coldOffset+e)
		prng := core.Derive(seed, "consim", "cold-plan", e)
		plan := genColdPlan(prng, ep, st)
		if e%2 == 1 {
			plan = nil // drawn after the reference run, from the statements it executed
		}
		race := e%3 == 2
		fix, err := coldFixtures(ep.FixSeed)
		if err != nil {
			a.mu.Lock()
			a.failed = append(a.failed, err.Error())
			a.mu.Unlock()
			return
		}
		co, raced, rlog, err := coldEpisode(ep, plan, fix, sites, race, 5*time.Minute, prng)
		if co != nil && co.Plan != nil {
			plan = co.Plan
		}
		if plan == nil {
			plan = &simsched.Plan{Strategy: "unknown"}
		}
		a.mu.Lock()
		switch {
		case err != nil:
			a.failed = append(a.failed, fmt.Sprintf("cold episode %d: %v", e, err))
		case raced:
			a.coldEpisodes++
			a.found = append(a.found, foundV{e: coldOffset + e, race: true, cold: true, plan: plan, log: rlog,
				v: Violation{Property: "C15", Oracle: "race-report", Where: fmt.Sprintf("cold episode %d", e), Detail: raceSummary(rlog), Signature: "race-report:" + raceSummary(rlog)}})
		default:
			a.coldEpisodes++
			a.runs += int64(co.RunCount) + 1
			if race {
				a.raceRuns += int64(co.RunCount)
			}
			a.yields += co.Stats.Yields
			a.switches += co.Stats.Switches
			a.midcall += co.Stats.MidCall
			a.traces[co.Stats.Trace] = true
			if co.Stats.MidCall > 0 {
				a.nontrivial[co.Stats.Trace] = true
				a.coldMidcall++
			}
			for i := range a.byClass {
				a.byClass[i] += co.ByClass[i]
			}
			for _, sh := range co.SiteHit {
				a.sitesHit[sh] = true
			}
			a.strategies.Add("cold:"+plan.Strategy, 1)
			for _, calls := range ep.Tasks {
				for _, c := range calls {
					a.kinds.Add(c.K, 1)
				}
			}
			for _, v := range co.Viol {
				a.found = append(a.found, foundV{e: coldOffset + e, race: race, cold: true, v: v, plan: plan})
			}
		}
		a.mu.Unlock()
	}
}

func dropTask(rf *ReplayFile, t int) *ReplayFile {
	c := *rf
	ep := *rf.Episode
	ep.Tasks = append(append([][]Call(nil), rf.Episode.Tasks[:t]...), rf.Episode.Tasks[t+1:]...)
	c.Episode = &ep
	if rf.Plan != nil {
		p := *rf.Plan
		p.Prio = nil
		for i, x := range rf.Plan.Prio {
			if i != t {
				p.Prio = append(p.Prio, x)
			}
		}
		p.Points = nil
		for _, pt := range rf.Plan.Points {
			if pt.Ordinal == 0 && pt.Task == t {
				continue
			}
			if pt.Ordinal == 0 && pt.Task > t {
				pt.Task--
			}
			p.Points = append(p.Points, pt)
		}
		c.Plan = &p
	}
	return &c
}

func minimiseReplay(rf *ReplayFile, sites string, budget time.Duration) *ReplayFile {
	start := time.Now()
	ok := func() bool { return time.Since(start) < budget }
	cur := rf
	// drop tasks
	for t := len(cur.Episode.Tasks) - 1; t >= 0 && ok(); t-- {
		if len(cur.Episode.Tasks) <= 1 {
			break
		}
		c := dropTask(cur, t)
		if reproduces(c, sites) {
			cur = c
		}
	}
	// drop calls (from the end of each task first: boundary occurrences of earlier calls stay valid)
	for t := range cur.Episode.Tasks {
		for i := len(cur.Episode.Tasks[t]) - 1; i >= 0 && ok(); i-- {
			if len(cur.Episode.Tasks[t]) <= 1 {
				break
			}
			c := *cur
			ep := *cur.Episode
			ep.Tasks = append([][]Call(nil), cur.Episode.Tasks...)
			ep.Tasks[t] = append(append([]Call(nil), cur.Episode.Tasks[t][:i]...), cur.Episode.Tasks[t][i+1:]...)
			c.Episode = &ep
			if reproduces(&c, sites) {
				cur = &c
			}
		}
	}
	// drop change points
	if cur.Plan != nil {
		for i := len(cur.Plan.Points) - 1; i >= 0 && ok(); i-- {
			c := *cur
			p := *cur.Plan
			p.Points = append(append([]simsched.ChangePoint(nil), cur.Plan.Points[:i]...), cur.Plan.Points[i+1:]...)
			c.Plan = &p
			if reproduces(&c, sites) {
				cur = &c
			}
		}
		if cur.Plan.Quantum > 0 && ok() {
			c := *cur
			p := *cur.Plan
			p.Quantum = 0
			c.Plan = &p
			if reproduces(&c, sites) {
				cur = &c
			}
		}
	}
	cur.Minimised = true
	return cur
}

func check(tier string) int {
	start := time.Now()
	seed := uint64(1)
	if v := os.Getenv("VERIF_SEED"); v != "" {
		n, err := strconv.ParseInt(v, 10, 64)
		if err != nil {
			fail2("VERIF_SEED must be an integer")
		}
		seed = uint64(n)
	}
	root := envOr("VERIF_ROOT", "/verif")
	sites := os.Getenv("CONSIM_SITES")
	st := loadSites(sites)
	scratch := filepath.Dir(sites)
	tree := os.Getenv("VERIF_TREE_HASH")
	thorough := tier == "thorough"
	plainW, raceW := envInt("CONSIM_PLAIN_WORKERS", 10), envInt("CONSIM_RACE_WORKERS", 6)
	nPlain, kPlain, nRace, kRace := 160, 10, 48, 4
	deadline := int64(0)
	watchdog := 15 * time.Minute
	if thorough {
		nPlain, kPlain, nRace, kRace = 1000000, 16, 1000000, 8
		deadline = time.Now().Unix() + int64(envInt("VERIF_BUDGET_S", 15*60))
		watchdog = time.Duration(envInt("VERIF_BUDGET_S", 15*60)+20*60) * time.Second
	}
	nPlain, nRace = envInt("CONSIM_PLAIN_EPISODES", nPlain), envInt("CONSIM_RACE_EPISODES", nRace)
	fmt.Printf("consim: property=C15 tier=%s VERIF_SEED=%d sites=%d table=%s tree=%s workers=%d plain + %d race\n", tier, seed, len(st.Sites)-1, st.Hash, tree, plainW, raceW)
	a := &aggT{traces: map[uint64]bool{}, nontrivial: map[uint64]bool{}, sitesHit: map[int]bool{}, strategies: core.Counter{}, kinds: core.Counter{}, pairs: map[string]bool{}}
	var wg sync.WaitGroup
	for w := 0; w < plainW; w++ {
		wg.Add(1)
		go func(w int) {
			defer wg.Done()
			runWorker(a, wspec{false, w, plainW, 0, nPlain, kPlain}, tier, seed, deadline, sites, watchdog, scratch)
		}(w)
	}
	for w := 0; w < raceW; w++ {
		wg.Add(1)
		go func(w int) {
			defer wg.Done()
			runWorker(a, wspec{true, w, raceW, raceOffset, nRace, kRace}, tier, seed, deadline, sites, watchdog, scratch)
		}(w)
	}
	wg.Wait()
	// cold-start episodes: two short-lived processes each, all cores
	nCold := envInt("CONSIM_COLD_EPISODES", map[bool]int{false: 400, true: 1000000}[thorough])
	coldDeadline := int64(0)
	if thorough {
		coldDeadline = time.Now().Unix() + int64(envInt("VERIF_COLD_BUDGET_S", 5*60))
	}
	for slot := 0; slot < 16; slot++ {
		wg.Add(1)
		go func(slot int) {
			defer wg.Done()
			runCold(a, seed, slot, 16, nCold, coldDeadline, sites, st)
		}(slot)
	}
	wg.Wait()

	known, err := core.LoadKnown(filepath.Join(root, "known_findings.json"))
	if err != nil {
		fail2("known_findings.json: %v", err)
	}
	sort.Slice(a.found, func(i, j int) bool { return a.found[i].e < a.found[j].e })
	var lines []string
	seen := map[string]bool{}
	knownMatched, unconfirmed := 0, 0
	for _, f := range a.found {
		if k := known.Match(f.v); k != nil {
			if !seen["known:"+k.Signature] {
				fmt.Printf("KNOWN-FINDING: property=C15 %s\n", k.What)
				seen["known:"+k.Signature] = true
			}
			knownMatched++
			continue
		}
		if seen[f.v.Oracle] || len(lines) >= 3 {
			continue
		}
		seen[f.v.Oracle] = true
		rf := &ReplayFile{Property: "C15", Oracle: f.v.Oracle, Engine: "consim", Tier: tier, Seed: seed, EpisodeIndex: f.e, TreeHash: tree, SiteTable: st.Hash, Race: f.race,
			Episode: genEpisode(seed, f.e, thorough), Plan: f.plan, RaceReport: f.log, Cold: f.cold, RunIndex: f.run}
		if f.warmAlone {
			rf.WarmAlone, rf.WorkerW, rf.WorkerNW, rf.WorkerK = true, f.e%plainW, plainW, kPlain
		}
		if f.cold {
			rf.Episode = genColdEpisode(seed, f.e)
		}
		v := f.v
		rf.FirstDivergence = &v
		ok := false
		tries := 3
		if f.v.Oracle == "race-report" {
			tries = 6
		}
		for try := 0; try < tries && !ok; try++ {
			ok = reproducesN(rf, sites, 1)
		}
		if !ok && !f.cold && !f.warmAlone && f.v.Oracle != "race-report" {
			// state left behind by earlier runs or episodes: re-execute more history
			for _, mode := range []string{"prefix", "worker"} {
				rf.Mode, rf.WorkerW, rf.WorkerNW, rf.WorkerK = mode, f.w, f.nw, f.k
				if ok = reproducesN(rf, sites, 1); ok {
					break
				}
			}
			if !ok {
				rf.Mode = ""
			}
		}
		min := rf
		if !ok && f.v.Oracle == "race-report" && f.log != "" {
			// A race report is never a false positive and its text (both stacks) is
			// in the replay file. The schedule replays exactly; whether the detector
			// still remembers the older access does not. Reported, not minimised.
			fmt.Fprintf(os.Stderr, "consim: note: the race report of episode %d did not recur in %d fresh executions of the same schedule (detector shadow-memory eviction); reporting it with the original report attached\n", f.e, tries)
			rf.BestEffort = true
		} else if !ok {
			fmt.Fprintf(os.Stderr, "consim: episode %d reported %s but a fresh-process replay did not reproduce it\n", f.e, f.v.String())
			unconfirmed++
			continue
		} else if !rf.WarmAlone && rf.Mode == "" {
			min = minimiseReplay(rf, sites, 120*time.Second)
		}
		path := filepath.Join(envOr("VERIF_REPLAY_DIR", filepath.Join(root, "replays")), fmt.Sprintf("C15-%d-%d-%s.json", seed, f.e, f.v.Oracle))
		if err := core.WriteJSON(path, min); err != nil {
			fail2("cannot write replay: %v", err)
		}
		fmt.Printf("violation: %s\n", f.v.String())
		if f.log != "" {
			fmt.Println(indent(firstReport(f.log)))
		}
		lines = append(lines, fmt.Sprintf("VIOLATION property=C15 replay=%s", path))
	}

	wall := time.Since(start).Seconds()
	classNames := []string{"call-boundary", "G(package-level state)", "W(write through pointer/slice/field)", "O(other)"}
	byClass := map[string]uint64{}
	for i, n := range classNames {
		byClass[n] = a.byClass[i]
	}
	pairs := []string{}
	for p := range a.pairs {
		pairs = append(pairs, p)
	}
	sort.Strings(pairs)
	sampleEp := genEpisode(seed, 0, thorough)
	samplePlan := genPlanSample(seed, sampleEp, st)
	ev := &core.Evidence{PropertyID: "C15", Tier: tier, Seed: int64(seed), Level: "exploration", WallS: wall, Violations: len(a.found) - knownMatched}
	ev.Coverage = map[string]interface{}{
		"evaluations":         a.runs,
		"distinct_nontrivial": len(a.nontrivial),
		"rule":                "One evaluation = one run of an episode (2-8 caller goroutines, each a list of library calls over shared fixtures) under one schedule plan; per episode 2 sequential baselines + K seeded plans (site-stratified PCT, ordinal PCT, quantum round-robin, whole-call shuffle). Distinct = distinct switch-trace hash (hash of every (yield ordinal, from, to) hand-off). Non-trivial = the run contains at least one pre-emption inside a library call that resumed a task which was itself parked inside a library call.",
		"samples":             []interface{}{map[string]interface{}{"episode": sampleEp, "plan": samplePlan}},
		"exhaustive":          false,
		"episodes":            a.episodes,
		"cold_start_episodes": a.coldEpisodes,
		"warm_calls_compared_with_a_run_alone_reference": a.aloneRefs,
		"cold_start_episodes_with_midcall_preemption": a.coldMidcall,
		"race_build_runs":     a.raceRuns,
		"plain_build_runs":    a.runs - a.raceRuns,
		"logical_steps":       a.yields,
		"simulated_time":      "none: the library has no clock; progress is counted in yield points (one per executed library statement)",
		"runs_per_hour":       int64(float64(a.runs) / wall * 3600),
		"seeds":               []uint64{seed},
		"distinct_interleavings": len(a.traces),
		"switches":            a.switches,
		"midcall_preemptions": a.midcall,
		"faults_fired":        map[string]interface{}{"preemption_by_site_class": byClass, "preemptions_total": a.switches},
		"static_sites":        len(st.Sites) - 1,
		"static_sites_executed_max_per_episode": a.sitesExec,
		"static_sites_with_a_switch":            len(a.sitesHit),
		"strategies":          a.strategies,
		"call_kinds":          a.kinds,
		"functions_preempted_midcall_sample": pairs,
		"real_components":     []string{"all library packages (common, misc, qrl, xmss, dilithium): unmodified source plus inserted yield calls", "Go race detector (race-build workers)", "golang.org/x/crypto, standard library"},
		"stub_components":     []string{"scheduler: which goroutine runs is decided by simsched from the seeded plan", "crypto/rand.Reader: per-task deterministic stream (so dilithium.New is schedule-independent)"},
		"known_findings_matched":      knownMatched,
		"unconfirmed_in_fresh_process": unconfirmed,
		"site_table_hash":     st.Hash,
		"tree_hash":           tree,
	}
	ev.Assumptions = []string{
		"schedules are sampled, not enumerated",
		"pre-emption granularity is one source statement of the library packages; not inside x/crypto, the standard library or a single expression",
		"memory-model effects beyond sequentially consistent interleavings are left to the race detector, whose report does not depend on the interleaving chosen",
		"library-internal goroutines, channels, Cond/WaitGroup waits are unsupported (exit 2)",
	}
	if err := core.WriteJSON(filepath.Join(envOr("VERIF_EVIDENCE_DIR", filepath.Join(root, "evidence")), "C15.json"), ev); err != nil {
		fail2("cannot write evidence: %v", err)
	}
	fmt.Printf("consim: C15 %s: %d episodes, %d runs (%d under -race), %d yields, %d switches (%d mid-call), %d distinct interleavings (%d non-trivial), %d violations, %.1fs\n",
		tier, a.episodes, a.runs, a.raceRuns, a.yields, a.switches, a.midcall, len(a.traces), len(a.nontrivial), len(a.found)-knownMatched, wall)
	if len(lines) > 0 {
		for _, l := range lines {
			fmt.Println(l)
		}
		return 1
	}
	for _, f := range a.failed {
		fmt.Fprintf(os.Stderr, "consim: INCONCLUSIVE: %s\n", f)
	}
	if len(a.failed) > 0 || unconfirmed > 0 {
		return 2
	}
	if len(a.found)-knownMatched > 0 {
		return 1
	}
	if a.midcall == 0 || a.raceRuns == 0 || a.coldMidcall == 0 {
		fmt.Fprintln(os.Stderr, "consim: INCONCLUSIVE: probe stuck at zero (no mid-call pre-emption, no race-build run or no cold-start episode)")
		return 2
	}
	return 0
}

func genPlanSample(seed uint64, ep *Episode, st *Sites) interface{} {
	// a literal plan of the kind that needs no occurrence counts (cold episode 0);
	// warm plans are drawn per run from Derive(seed, consim, plans, episode) using the
	// per-(task,site) occurrence counts of the sequential baseline
	cep := genColdEpisode(seed, coldOffset)
	return map[string]interface{}{"cold_episode": cep, "cold_plan": genColdPlan(core.Derive(seed, "consim", "cold-plan", 0), cep, st)}
}

func firstReport(log string) string {
	if i := strings.Index(log, "=================="); i >= 0 {
		rest := log[i+18:]
		if j := strings.Index(rest, "=================="); j >= 0 {
			return strings.TrimSpace(rest[:j])
		}
	}
	return strings.TrimSpace(log)
}

func indent(s string) string {
	ls := strings.Split(s, "\n")
	if len(ls) > 40 {
		ls = ls[:40]
	}
	return "    " + strings.Join(ls, "\n    ")
}

func replayCmd(path string) int {
	b, err := os.ReadFile(path)
	if err != nil {
		fail2("%v", err)
	}
	var rf ReplayFile
	if err := json.Unmarshal(b, &rf); err != nil {
		fail2("%v", err)
	}
	sites := os.Getenv("CONSIM_SITES")
	vs, raced, rlog, err := replayFresh(&rf, sites, 10*time.Minute)
	for try := 0; try < 4 && err == nil && rf.Oracle == "race-report" && !raced; try++ {
		// same schedule again: only the detector's shadow-cell eviction varies
		vs, raced, rlog, err = replayFresh(&rf, sites, 10*time.Minute)
	}
	if err != nil {
		fail2("replay: %v", err)
	}
	hit := false
	if raced {
		fmt.Println(indent(firstReport(rlog)))
		hit = rf.Oracle == "race-report"
	}
	for _, v := range vs {
		fmt.Println("  " + v.String())
		if v.Oracle == rf.Oracle {
			hit = true
		}
	}
	if hit {
		fmt.Printf("VIOLATION property=C15 replay=%s\n", path)
		return 1
	}
	fmt.Println("replay: the recorded violation did not occur on this tree")
	return 0
}
