//go:build consim

// Command consim is the deterministic caller-goroutine simulator (property C15).
// It is built against an instrumented scratch copy of the library.
//
//	consim check <tier>                 parent: spawn workers, aggregate, report
//	consim worker ...                   (internal)
//	consim replay <file>                re-execute a replay file
//	consim replay-raw <file>            (internal) fresh-process executor
package main

import (
	"bufio"
	"crypto/rand"
	"encoding/json"
	"fmt"
	"os"
	"os/exec"
	"path/filepath"
	"runtime"
	"sort"
	"strconv"
	"strings"
	"sync"
	"time"

	"github.com/theQRL/go-qrllib/dilithium"
	"github.com/theQRL/go-qrllib/simsched"
	"github.com/theQRL/go-qrllib/xmss"

	"verif/core"
)

// ---------------------------------------------------------------- entropy seam

// taskEntropy makes crypto/rand deterministic per task, independent of the
// interleaving: each task has its own stream. Harness code: no yield inside.
type taskEntropy struct {
	streams [maxTasks + 1]*core.Rand
}

func (e *taskEntropy) reset(seed uint64) {
	for i := range e.streams {
		e.streams[i] = core.Derive(seed, "consim", "entropy", i)
	}
}
func (e *taskEntropy) Read(p []byte) (int, error) {
	t := simsched.Current()
	if !running || t < 0 || t >= maxTasks {
		t = maxTasks
	}
	e.streams[t].Bytes(p)
	return len(p), nil
}

var (
	entropy = &taskEntropy{}
	running bool
)

// ---------------------------------------------------------------- episode

// Episode is explicit data: fixtures seed, per-task call lists.
type Episode struct {
	FixSeed uint64   `json:"fix_seed"`
	EntSeed uint64   `json:"entropy_seed"`
	Tasks   [][]Call `json:"tasks"`
}

type Sites struct {
	Hash  string `json:"hash"`
	Sites []struct {
		ID    int    `json:"id"`
		File  string `json:"file"`
		Line  int    `json:"line"`
		Class string `json:"class"`
		Func  string `json:"func"`
	} `json:"sites"`
}

func loadSites(path string) *Sites {
	b, err := os.ReadFile(path)
	if err != nil {
		fail2("site table: %v", err)
	}
	s := &Sites{}
	if err := json.Unmarshal(b, s); err != nil {
		fail2("site table: %v", err)
	}
	nsitesGlobal = len(s.Sites)
	return s
}

func fail2(f string, a ...interface{}) {
	fmt.Fprintf(os.Stderr, "consim: INCONCLUSIVE: "+f+"\n", a...)
	os.Exit(2)
}

func genEpisode(seed uint64, e int, thorough bool) *Episode {
	r := core.Derive(seed, "consim", "episode", e)
	// fixtures change every 64 episode indices, i.e. every 6-10 consecutive
	// episodes of one worker: a worker meets the same keys and buffers over a long
	// stretch of its history
	ep := &Episode{FixSeed: core.Derive(seed, "consim", "fixgroup", (e%raceOffset)/64).Uint64(), EntSeed: r.Uint64()}
	maxN := 6
	if thorough {
		maxN = 8
	}
	n := r.Range(2, maxN)
	// swarm: a random subset of call kinds is enabled per episode
	var enabled []string
	for _, k := range callKinds {
		if r.Chance(0.55) {
			enabled = append(enabled, k)
		}
	}
	if len(enabled) < 3 {
		enabled = callKinds
	}
	// one episode in five is a long private-key workload: a few goroutines, each
	// driving its own XMSS object (same height) through many signatures and
	// jumps, so that state shared between distinct key objects gets used
	hot := r.Intn(64)
	longPriv := r.Chance(0.15)
	if longPriv {
		n = r.Range(2, 3)
		enabled = []string{"psign", "psign", "psign", "psign", "pset", "pset", "pget", "xverify"}
	}
	for t := 0; t < n; t++ {
		var calls []Call
		nc := r.Range(2, 7)
		if longPriv {
			nc = r.Range(8, 14)
		}
		pidx := 0
		leaves := 1 << privHeight(t)
		for len(calls) < nc {
			k := enabled[r.Intn(len(enabled))]
			c := Call{K: k, A: r.Intn(64), B: r.Intn(64)}
			if r.Chance(0.4) { // several goroutines on the very same input buffers at once
				c.A = hot
			}
			switch k {
			case "xnew", "xnewext":
				if !r.Chance(0.12) { // key generation is expensive: keep it rare
					continue
				}
			case "pset":
				switch r.Intn(5) {
				case 0:
					c.A = pidx // distance 0
				case 1:
					c.A = leaves + r.Intn(3) // refused: too high
				case 2:
					if pidx > 0 {
						c.A = r.Intn(pidx) // refused: rewind
					}
				default:
					c.A = pidx + r.Intn(4)
					if leaves > 16 && r.Chance(0.3) {
						c.A = pidx + r.Intn(20)
					}
				}
				if c.A >= pidx && c.A < leaves {
					pidx = c.A
				}
			case "psign":
				if pidx < leaves {
					pidx++
				}
			}
			calls = append(calls, c)
		}
		ep.Tasks = append(ep.Tasks, calls)
	}
	return ep
}

// ---------------------------------------------------------------- one run

type runOut struct {
	Changed string // call kind whose returned string/slice was rewritten after it returned
	Results [][]string
	Stats   simsched.Stats
	Counts  [][]uint32
	Shared  string
	SiteHit []uint32
	Sw      []simsched.Switch
}

var fixCache = map[uint64]*Fix{}

// nsitesGlobal: size of the site table (set once it is loaded); library calls the
// harness makes outside the runs proper go through simsched.RunAlone
var nsitesGlobal int

func fixturesFor(seed uint64) *Fix {
	if f, ok := fixCache[seed]; ok {
		return f
	}
	if len(fixCache) > 2 {
		fixCache = map[uint64]*Fix{}
	}
	entropy.reset(seed)
	var f *Fix
	simsched.RunAlone(nsitesGlobal, func() { f = buildFixtures(seed) })
	fixCache[seed] = f
	return f
}

// runOnce executes the episode under one plan. plan == nil with order != nil
// means a sequential baseline: calls run alone to completion in that order.
// makeDilRun creates the per-run shared Dilithium keys (warm episodes only:
// a cold process makes no library call before its tasks start).
func (f *Fix) makeDilRun() {
	f.DilRun = nil
	if len(f.Dil) == 0 {
		return
	}
	simsched.RunAlone(nsitesGlobal, func() {
		for i := 4; i < 6; i++ {
			d, err := dilithium.NewDilithiumFromSeed(f.Seeds[i])
			if err != nil {
				panic(err)
			}
			f.DilRun = append(f.DilRun, d)
		}
	})
}

// stepLimit bounds the yields of the next run (logical steps, not wall-clock):
// a call that spins forever under some interleaving becomes a deterministic,
// replayable result difference instead of a watchdog timeout.
var stepLimit uint64 = 6e9

func runOnce(f *Fix, ep *Episode, plan *simsched.Plan, nsites int, wantCounts bool) *runOut {
	n := len(ep.Tasks)
	priv := make([]*xmss.XMSS, n)
	for t := 0; t < n && len(f.Priv) > 0; t++ { // no private keys in cold episodes
		priv[t] = f.Priv[t].VerifCloneKeeping(f.keep)
	}
	f.makeDilRun()
	entropy.reset(ep.EntSeed)
	out := &runOut{Results: make([][]string, n)}
	helds := make([]*held, n)
	for t := range out.Results {
		out.Results[t] = make([]string, len(ep.Tasks[t]))
		helds[t] = &held{}
	}
	simsched.ResetMidCall()
	simsched.Setup(n, nsites, plan, true, 256)
	simsched.SetLimit(stepLimit)
	running = true
	var wg sync.WaitGroup
	for t := 0; t < n; t++ {
		wg.Add(1)
		go func(t int) {
			defer wg.Done()
			simsched.Enter(t)
			for i, c := range ep.Tasks[t] {
				if i > 0 {
					simsched.Boundary()
				}
				out.Results[t][i] = f.exec(c, priv[t], helds[t])
			}
			simsched.Finish(t)
		}(t)
	}
	wg.Wait()
	simsched.WaitAll() // goroutines the library started and did not wait for
	simsched.Stop()
	running = false
	out.Stats = simsched.GetStats()
	if wantCounts {
		out.Counts = simsched.Counts()
	}
	out.SiteHit = simsched.SiteHits()
	out.Sw = simsched.Switches()
	out.Shared = f.sharedDigest()
	for _, h := range helds {
		if c := h.changed(); c != "" {
			out.Changed = c
			break
		}
	}
	return out
}

// baseline plans: no change point inside calls.
func seqPlan(n int, order []int) *simsched.Plan {
	p := &simsched.Plan{Strategy: "sequential", Prio: make([]int, n)}
	for rank, t := range order {
		p.Prio[t] = n - rank
	}
	return p
}

// callBoundaryPlan interleaves whole calls: a change point at every call
// boundary of every task, so tasks take turns call by call.
func callBoundaryPlan(ep *Episode, order []int) *simsched.Plan {
	p := seqPlan(len(ep.Tasks), order)
	p.Strategy = "call-round-robin"
	for t, calls := range ep.Tasks {
		for i := 1; i < len(calls); i++ {
			p.Points = append(p.Points, simsched.ChangePoint{Task: t, Site: 0, Occ: uint32(i)})
		}
	}
	return p
}

// genPlan draws one schedule from the episode's PRNG stream.
func genPlan(r *core.Rand, ep *Episode, st *Sites, counts [][]uint32, total uint64) *simsched.Plan {
	n := len(ep.Tasks)
	p := &simsched.Plan{Prio: r.Perm(n)}
	for i := range p.Prio {
		p.Prio[i] += 1
	}
	for i := 0; i < 12; i++ { // priorities for goroutines the library itself may start
		p.DynPrio = append(p.DynPrio, r.Range(-2, n+2))
	}
	switch r.Pick([]int{5, 2, 2, 1}) {
	case 0: // site-stratified PCT
		p.Strategy = "site-pct"
		d := []int{1, 2, 3, 5, 8}[r.Intn(5)]
		var gw, all []int
		for s := range st.Sites {
			hit := false
			for t := 0; t < n; t++ {
				if counts[t][s] > 0 {
					hit = true
				}
			}
			if !hit {
				continue
			}
			all = append(all, s)
			if c := st.Sites[s].Class; c == "G" || c == "W" {
				gw = append(gw, s)
			}
		}
		for i := 0; i < d && len(all) > 0; i++ {
			pool := all
			if len(gw) > 0 && r.Chance(0.5) {
				pool = gw
			}
			s := pool[r.Intn(len(pool))]
			var ts []int
			for t := 0; t < n; t++ {
				if counts[t][s] > 0 {
					ts = append(ts, t)
				}
			}
			t := ts[r.Intn(len(ts))]
			occ := uint32(1)
			switch r.Intn(3) {
			case 0: // first occurrence: where lazily built state is created
			case 1:
				occ = counts[t][s]
			default:
				occ = 1 + r.Uint32n(counts[t][s])
			}
			p.Points = append(p.Points, simsched.ChangePoint{Task: t, Site: s, Occ: occ})
		}
	case 1: // classic PCT: change points uniform over the yield ordinals
		p.Strategy = "ordinal-pct"
		d := []int{1, 2, 3, 5}[r.Intn(4)]
		for i := 0; i < d && total > 0; i++ {
			p.Points = append(p.Points, simsched.ChangePoint{Ordinal: 1 + r.Uint64()%total})
		}
	case 2: // round-robin with a quantum
		p.Strategy = "quantum"
		p.Quantum = []uint64{1, 3, 10, 100, 1000, 100000}[r.Intn(6)]
		// a hand-off costs about a microsecond: keep their number per run bounded
		for total/p.Quantum > 3000000 {
			p.Quantum *= 10
		}
	case 3: // whole calls in random order
		p.Strategy = "call-shuffle"
		for t, calls := range ep.Tasks {
			for i := 1; i < len(calls); i++ {
				if r.Chance(0.6) {
					p.Points = append(p.Points, simsched.ChangePoint{Task: t, Site: 0, Occ: uint32(i)})
				}
			}
		}
	}
	return p
}

// ---------------------------------------------------------------- episode check

type Violation = core.Violation

type epReport struct {
	E          int         `json:"e"`
	Runs       int         `json:"runs"`
	Yields     uint64      `json:"yields"`
	Switches   uint64      `json:"switches"`
	MidCall    uint64      `json:"midcall"`
	Traces     []uint64    `json:"traces"`
	Nontrivial []uint64    `json:"nontrivial_traces"`
	ByClass    [4]uint64   `json:"by_class"` // B, G, W, O
	SitesHit   []int       `json:"sites_hit"`
	SitesExec  int         `json:"sites_exec"`
	Strategies core.Counter `json:"strategies"`
	Kinds      core.Counter `json:"kinds"`
	Pairs      []string    `json:"pairs"`
	Violations []Violation `json:"violations"`
	Plan       *simsched.Plan `json:"plan,omitempty"` // failing plan, if any
	FailRun    int         `json:"fail_run,omitempty"` // index of the run (0,1 = baselines) in which the first violation appeared
	BaseA      [][]string  `json:"base_a,omitempty"` // sequential-baseline results (sampled episodes), for the run-alone reference
	Done       bool        `json:"done,omitempty"`
	Begin      bool        `json:"begin,omitempty"`
	Run        int         `json:"run,omitempty"`
}

func classIdx(c string) int {
	switch c {
	case "B":
		return 0
	case "G":
		return 1
	case "W":
		return 2
	}
	return 3
}

func diffResults(base, got [][]string, ep *Episode) (string, string) {
	for t := range base {
		for i := range base[t] {
			if base[t][i] != got[t][i] {
				return fmt.Sprintf("task%d/call%d", t, i), fmt.Sprintf("%s: sequential result %s, scheduled result %s", ep.Tasks[t][i].K, short(base[t][i]), short(got[t][i]))
			}
		}
	}
	return "", ""
}

func short(s string) string {
	if len(s) > 60 {
		return s[:60]
	}
	return s
}

// checkEpisode runs the baselines and K scheduled runs; emit is called before
// each run (the race build dies inside a run, so the parent must know which).
func checkEpisode(seed uint64, e int, ep *Episode, st *Sites, K int, emit func(run int, p *simsched.Plan)) *epReport {
	rep := &epReport{E: e, Strategies: core.Counter{}, Kinds: core.Counter{}}
	f := fixturesFor(ep.FixSeed)
	n := len(ep.Tasks)
	ns := len(st.Sites)
	for _, calls := range ep.Tasks {
		for _, c := range calls {
			rep.Kinds.Add(c.K, 1)
		}
	}
	f.makeDilRun()
	shared0 := f.sharedDigest()
	order := make([]int, n)
	for i := range order {
		order[i] = i
	}
	rev := make([]int, n)
	for i := range rev {
		rev[i] = n - 1 - i
	}
	addV := func(oracle, where, sig, detail string, p *simsched.Plan) {
		rep.Violations = append(rep.Violations, Violation{Property: "C15", Oracle: oracle, Where: where, Detail: detail, Signature: oracle + ":" + sig})
		if rep.Plan == nil {
			rep.Plan = p
			rep.FailRun = rep.Runs - 1
		}
	}
	siteHit := make([]uint64, ns)
	account := func(o *runOut, p *simsched.Plan) {
		rep.Runs++
		rep.Yields += o.Stats.Yields
		rep.Switches += o.Stats.Switches
		rep.MidCall += o.Stats.MidCall
		rep.Traces = append(rep.Traces, o.Stats.Trace)
		if o.Stats.MidCall > 0 {
			rep.Nontrivial = append(rep.Nontrivial, o.Stats.Trace)
		}
		rep.Strategies.Add(p.Strategy, 1)
		for s, c := range o.SiteHit {
			if c > 0 {
				siteHit[s] += uint64(c)
				rep.ByClass[classIdx(st.Sites[s].Class)] += uint64(c)
			}
		}
	}
	// baseline A: tasks one after the other
	pA := seqPlan(n, order)
	emit(0, pA)
	A := runOnce(f, ep, pA, ns, true)
	account(A, pA)
	if A.Shared != shared0 {
		addV("shared-input-modified", "baseline", "sequential", "a caller-owned shared object changed during a sequential run", pA)
	}
	if A.Changed != "" {
		addV("returned-value-rewritten", "baseline", A.Changed, "a string/slice returned by "+A.Changed+" no longer holds what was returned once later calls had run (sequential run)", pA)
	}
	// baseline B: whole calls interleaved, reverse task order
	pB := callBoundaryPlan(ep, rev)
	emit(1, pB)
	B := runOnce(f, ep, pB, ns, false)
	account(B, pB)
	if w, d := diffResults(A.Results, B.Results, ep); w != "" {
		addV("history-dependent-result", w, ep.Tasks[0][0].K+"...", "two sequential call orders disagree: "+d, pB)
	}
	if B.Shared != shared0 {
		addV("shared-input-modified", "baseline", "call-round-robin", "a caller-owned shared object changed", pB)
	}
	exec := 0
	for s := 0; s < ns; s++ {
		for t := 0; t < n; t++ {
			if A.Counts[t][s] > 0 {
				exec++
				break
			}
		}
	}
	rep.SitesExec = exec
	rep.BaseA = A.Results
	r := core.Derive(seed, "consim", "plans", e)
	stepLimit = 16*A.Stats.Yields + 5e6
	defer func() { stepLimit = 6e9 }()
	for k := 0; k < K && len(rep.Violations) == 0; k++ {
		p := genPlan(r, ep, st, A.Counts, A.Stats.Yields)
		emit(2+k, p)
		o := runOnce(f, ep, p, ns, false)
		account(o, p)
		if w, d := diffResults(A.Results, o.Results, ep); w != "" {
			t, i := 0, 0
			fmt.Sscanf(w, "task%d/call%d", &t, &i)
			addV("result-differs-from-sequential", w, ep.Tasks[t][i].K, d, p)
		}
		if o.Shared != shared0 {
			addV("shared-input-modified", "scheduled", p.Strategy, "a caller-owned shared object (input buffer or shared Dilithium key) changed during the run", p)
		}
		if o.Changed != "" {
			addV("returned-value-rewritten", "scheduled", o.Changed, "a string/slice returned by "+o.Changed+" no longer holds what was returned once other calls had run", p)
		}
		for _, sw := range o.Sw {
			if sw.MidCall && len(rep.Pairs) < 32 {
				rep.Pairs = append(rep.Pairs, st.Sites[sw.Site].Func)
			}
		}
	}
	for s, c := range siteHit {
		if c > 0 {
			rep.SitesHit = append(rep.SitesHit, s)
		}
	}
	return rep
}

// ---------------------------------------------------------------- worker

func worker(tier string, seed uint64, w, nw int, deadline int64, sitesPath string, nEpisodes, K int) {
	runtime.GOMAXPROCS(1)
	rand.Reader = entropy
	st := loadSites(sitesPath)
	out := bufio.NewWriter(os.Stdout)
	enc := json.NewEncoder(out)
	for e := w; e < nEpisodes; e += nw {
		if deadline > 0 && time.Now().Unix() >= deadline {
			break
		}
		ep := genEpisode(seed, e, tier == "thorough")
		rep := checkEpisode(seed, e, ep, st, K, func(run int, p *simsched.Plan) {
			enc.Encode(&epReport{E: e, Begin: true, Run: run, Plan: p})
			out.Flush()
		})
		enc.Encode(rep)
		out.Flush()
	}
	enc.Encode(&epReport{Done: true})
	out.Flush()
}

// ---------------------------------------------------------------- replay

type ReplayFile struct {
	Property        string         `json:"property"`
	Oracle          string         `json:"oracle"`
	Engine          string         `json:"engine"`
	Tier            string         `json:"tier"`
	Seed            uint64         `json:"seed"`
	EpisodeIndex    int            `json:"episode_index"`
	TreeHash        string         `json:"tree_hash"`
	SiteTable       string         `json:"site_table_hash"`
	Race            bool           `json:"race_build"`
	Cold            bool           `json:"cold_start,omitempty"`
	// WarmAlone: found by comparing a long-lived worker's sequential result with a
	// run-alone reference; replaying re-runs that worker's whole share up to the episode
	WarmAlone       bool           `json:"warm_alone,omitempty"`
	WorkerW         int            `json:"worker_first_episode,omitempty"`
	WorkerNW        int            `json:"worker_stride,omitempty"`
	WorkerK         int            `json:"worker_plans_per_episode,omitempty"`
	BestEffort      bool           `json:"replay_best_effort,omitempty"` // race report that did not recur when the schedule was re-executed
	RunIndex        int            `json:"run_index,omitempty"` // index of the run (0,1 = baselines) in which the violation appeared
	// Mode: how much history the replay re-executes. "" = baselines + the plan;
	// "prefix" = the episode exactly as the worker ran it up to that run;
	// "worker" = the worker's whole share of episodes up to this one. A violation
	// that depends on state left behind by earlier runs or episodes (a per-key memo,
	// a process-wide table) needs the longer forms.
	Mode string `json:"replay_mode,omitempty"`
	Minimised       bool           `json:"minimised"`
	Episode         *Episode       `json:"episode"`
	Plan            *simsched.Plan `json:"plan"`
	FirstDivergence *Violation     `json:"first_divergence"`
	RaceReport      string         `json:"race_report,omitempty"`
}

// replayRaw: baseline A, then the recorded plan; prints violations as JSON.
// In the race build a race report terminates the process with status 66.
func replayRaw(path, sitesPath string) {
	runtime.GOMAXPROCS(1)
	rand.Reader = entropy
	b, err := os.ReadFile(path)
	if err != nil {
		fail2("%v", err)
	}
	var rf ReplayFile
	if err := json.Unmarshal(b, &rf); err != nil {
		fail2("%v", err)
	}
	st := loadSites(sitesPath)
	if rf.SiteTable != "" && rf.SiteTable != st.Hash {
		fail2("replay was recorded against site table %s, this tree has %s: the sources changed, site ids no longer mean the same statements", rf.SiteTable, st.Hash)
	}
	ep := rf.Episode
	f := fixturesFor(ep.FixSeed)
	n, ns := len(ep.Tasks), len(st.Sites)
	f.makeDilRun()
	shared0 := f.sharedDigest()
	order := make([]int, n)
	rev := make([]int, n)
	for i := range order {
		order[i] = i
		rev[i] = n - 1 - i
	}
	var vs []Violation
	A := runOnce(f, ep, seqPlan(n, order), ns, false)
	if A.Shared != shared0 {
		vs = append(vs, Violation{Property: "C15", Oracle: "shared-input-modified", Where: "baseline"})
	}
	if A.Changed != "" {
		vs = append(vs, Violation{Property: "C15", Oracle: "returned-value-rewritten", Where: "baseline", Detail: A.Changed})
	}
	B := runOnce(f, ep, callBoundaryPlan(ep, rev), ns, false)
	if w, d := diffResults(A.Results, B.Results, ep); w != "" {
		vs = append(vs, Violation{Property: "C15", Oracle: "history-dependent-result", Where: w, Detail: d})
	}
	if rf.Plan != nil {
		stepLimit = 16*A.Stats.Yields + 5e6
		o := runOnce(f, ep, rf.Plan, ns, false)
		if w, d := diffResults(A.Results, o.Results, ep); w != "" {
			vs = append(vs, Violation{Property: "C15", Oracle: "result-differs-from-sequential", Where: w, Detail: d})
		}
		if o.Shared != shared0 {
			vs = append(vs, Violation{Property: "C15", Oracle: "shared-input-modified", Where: "scheduled"})
		}
		if o.Changed != "" {
			vs = append(vs, Violation{Property: "C15", Oracle: "returned-value-rewritten", Where: "scheduled", Detail: o.Changed})
		}
		fmt.Fprintf(os.Stderr, "replay: yields=%d switches=%d midcall=%d trace=%x\n", o.Stats.Yields, o.Stats.Switches, o.Stats.MidCall, o.Stats.Trace)
	}
	json.NewEncoder(os.Stdout).Encode(vs)
}

func main() {
	if len(os.Args) < 2 {
		fail2("usage: consim check|worker|replay|replay-raw ...")
	}
	switch os.Args[1] {
	case "worker":
		seed, _ := strconv.ParseUint(os.Args[3], 10, 64)
		w, _ := strconv.Atoi(os.Args[4])
		nw, _ := strconv.Atoi(os.Args[5])
		dl, _ := strconv.ParseInt(os.Args[6], 10, 64)
		ne, _ := strconv.Atoi(os.Args[8])
		k, _ := strconv.Atoi(os.Args[9])
		worker(os.Args[2], seed, w, nw, dl, os.Args[7], ne, k)
	case "replay-raw":
		replayRaw(os.Args[2], os.Args[3])
	case "fixgen":
		seed, _ := strconv.ParseUint(os.Args[2], 10, 64)
		rand.Reader = entropy
		entropy.reset(seed)
		if len(os.Args) > 4 {
			loadSites(os.Args[4])
		}
		var fx *Fix
		simsched.RunAlone(nsitesGlobal, func() { fx = buildFixtures(seed) })
		b, _ := json.Marshal(fx.data())
		if err := os.WriteFile(os.Args[3], b, 0o644); err != nil {
			fail2("%v", err)
		}
	case "cold-ref":
		coldRef(os.Args[2], os.Args[3], os.Args[4])
	case "cold-run":
		coldRun(os.Args[2], os.Args[3], os.Args[4], os.Args[5], os.Args[6])
	case "check":
		os.Exit(check(os.Args[2]))
	case "replay":
		os.Exit(replayCmd(os.Args[2]))
	default:
		fail2("unknown subcommand %s", os.Args[1])
	}
}

var _ = sort.Ints
var _ = strings.TrimSpace
var _ = exec.Command
var _ = filepath.Join
