//go:build consim

package main

import (
	"crypto/sha256"
	"encoding/hex"
	"fmt"
	"os"
	"runtime"
	"strings"

	"github.com/theQRL/go-qrllib/simsched"

	"github.com/theQRL/go-qrllib/common"
	"github.com/theQRL/go-qrllib/dilithium"
	"github.com/theQRL/go-qrllib/misc"
	"github.com/theQRL/go-qrllib/xmss"

	"verif/core"
)

// Fix are the fixtures of an episode, built before any task starts with the
// scheduler idle. Slices in here are handed to several tasks at once: the same
// backing arrays, never copies.
type Fix struct {
	Seeds [][48]byte
	Msgs  [][]byte
	Dil   []*dilithium.Dilithium
	DilPK [][dilithium.CryptoPublicKeyBytes]uint8
	DSig  []dsig
	DSeal [][]byte
	DBig  [][]byte // sealed messages of 64-256 KiB, more than 1 MiB together (not serialised for cold episodes)
	XPK   [][xmss.ExtendedPKSize]uint8
	XSig  []xsig
	Addr  [][common.AddressSize]uint8
	Leg   [][xmss.LegacyAddressSize]uint8
	Mnem  []string
	Ext   [][common.ExtendedSeedSize]uint8
	Desc  [][]byte
	// XSigW: byte strings with the exact size of a height-4 signature under
	// Winternitz parameter 4 / 256 (not valid signatures: the point is that the
	// size checks pass and the whole verification path runs with that parameter)
	XSigW map[uint32][]byte
	Priv  []*xmss.XMSS // pristine private keys, one per task slot; cloned per run
	// keep: addresses reachable from more than one pristine private key, i.e.
	// memory the library shares between key objects; clones keep sharing it
	keep map[uintptr]bool
	// DilRun: shared Dilithium keys created anew before every run and not used
	// before the tasks start, so that their first use may overlap
	DilRun []*dilithium.Dilithium
}
type dsig struct {
	msg, key int
	sig      [dilithium.CryptoBytes]uint8
}
type xsig struct {
	msg, pk int
	sig     []byte
}

const maxTasks = 8

// privHeight: private key of task slot i. Several keys of the same height above
// 4 exist so that state shared between key objects of one height (templates,
// pools) is exercised where the traversal actually uses its shared stack.
func privHeight(i int) uint8 {
	if i < 4 {
		return 6
	}
	return 4
}

func buildFixtures(seed uint64) *Fix {
	r := core.Derive(seed, "consim", "fixtures")
	f := &Fix{}
	for i := 0; i < 6; i++ {
		var s [48]byte
		r.Bytes(s[:])
		f.Seeds = append(f.Seeds, s)
	}
	// near-collisions on purpose: a cache keyed too coarsely (by a prefix, a
	// length, a height) must meet inputs that differ only elsewhere
	f.Seeds[5] = f.Seeds[4]
	f.Seeds[5][47] ^= 0x01
	f.Seeds[3] = f.Seeds[2]
	f.Seeds[3][0] ^= 0x80
	for _, n := range []int{0, 7, 32, 33, 200, 1500} {
		m := make([]byte, n)
		r.Bytes(m)
		f.Msgs = append(f.Msgs, m)
	}
	m6 := append([]byte(nil), f.Msgs[4]...) // same length and prefix as Msgs[4]
	m6[len(m6)-1] ^= 0x01
	m7 := append([]byte(nil), f.Msgs[2]...) // same length and suffix as Msgs[2]
	m7[0] ^= 0x01
	f.Msgs = append(f.Msgs, m6, m7)
	for i := 0; i < 2; i++ {
		d, err := dilithium.NewDilithiumFromSeed(f.Seeds[i])
		if err != nil {
			panic(err)
		}
		f.Dil = append(f.Dil, d)
		f.DilPK = append(f.DilPK, d.GetPK())
	}
	for k := 0; k < 2; k++ {
		for m := 0; m < 3; m++ {
			s, err := f.Dil[k].Sign(f.Msgs[m+1])
			if err != nil {
				panic(err)
			}
			f.DSig = append(f.DSig, dsig{m + 1, k, s})
			bad := s
			bad[r.Intn(len(bad))] ^= 1 << uint(r.Intn(8))
			f.DSig = append(f.DSig, dsig{m + 1, k, bad})
			sm, err := f.Dil[k].Seal(f.Msgs[m+1])
			if err != nil {
				panic(err)
			}
			f.DSeal = append(f.DSeal, sm)
			bs := append([]byte(nil), sm...)
			bs[r.Intn(len(bs))] ^= 1 << uint(r.Intn(8))
			f.DSeal = append(f.DSeal, bs)
		}
	}
	// more distinct public keys in flight (verify-only): a bounded table of
	// recently seen keys must meet more keys than it holds
	for k := 0; k < 22; k++ {
		var sd [48]byte
		r.Bytes(sd[:])
		d, err := dilithium.NewDilithiumFromSeed(sd)
		if err != nil {
			panic(err)
		}
		f.DilPK = append(f.DilPK, d.GetPK())
		s, err := d.Sign(f.Msgs[1+k%3])
		if err != nil {
			panic(err)
		}
		f.DSig = append(f.DSig, dsig{1 + k%3, len(f.DilPK) - 1, s})
	}
	f.DSeal = append(f.DSeal, []byte{1, 2, 3}) // shorter than a signature
	// block-sized payloads: a recycled or pooled payload buffer must meet
	// more bytes in flight than any plausible pool holds
	for i, n := range []int{262144, 200000, 262144, 150000, 262144, 100000, 65536, 16384} {
		m := make([]byte, n)
		r.Bytes(m)
		sm, err := f.Dil[i%2].Seal(m)
		if err != nil {
			panic(err)
		}
		f.DBig = append(f.DBig, sm)
	}
	for i := 0; i < 6; i++ {
		// keys 0 and 2: same height, same hash function, different seed;
		// keys 0 and 1: seeds differing in one bit, different hash function
		hf := xmss.HashFunction((int(seed) + i) % 3)
		ks := f.Seeds[2+i%2]
		if i == 2 {
			hf = xmss.HashFunction(int(seed) % 3)
			ks = f.Seeds[0]
		}
		if i > 2 { // further keys, all hash functions
			hf = xmss.HashFunction(i % 3)
			r.Bytes(ks[:])
		}
		k := xmss.NewXMSSFromSeed(ks, 4, hf, common.SHA256_2X)
		pk := k.GetPK()
		f.XPK = append(f.XPK, pk)
		f.Addr = append(f.Addr, k.GetAddress())
		f.Leg = append(f.Leg, k.GetLegacyAddress())
		f.Ext = append(f.Ext, k.GetExtendedSeed())
		f.Mnem = append(f.Mnem, k.GetMnemonic())
		if i == 1 {
			k.SetIndex(uint32(3 + r.Intn(9)))
		}
		for m := 0; m < 2; m++ {
			s, err := k.Sign(f.Msgs[m+2])
			if err != nil {
				panic(err)
			}
			f.XSig = append(f.XSig, xsig{m + 2, i, s})
			bad := append([]byte(nil), s...)
			bad[4+r.Intn(len(bad)-4)] ^= 1 << uint(r.Intn(8))
			f.XSig = append(f.XSig, xsig{m + 2, i, bad})
			if i == 2 && m == 0 { // a valid signature presented with the wrong (same-shape) public key
				f.XSig = append(f.XSig, xsig{m + 2, 0, s})
			}
		}
	}
	// degenerate inputs: zero-length signature, all-zero public keys
	f.XSig = append(f.XSig, xsig{2, 0, []byte{}})
	f.XPK = append(f.XPK, [xmss.ExtendedPKSize]uint8{})
	f.XSig = append(f.XSig, xsig{0, len(f.XPK) - 1, f.XSig[0].sig})
	f.DilPK = append(f.DilPK, [dilithium.CryptoPublicKeyBytes]uint8{})
	f.DSig = append(f.DSig, dsig{0, len(f.DilPK) - 1, f.DSig[0].sig})
	f.XSigW = map[uint32][]byte{}
	for _, wk := range [][2]uint32{{4, 133 * 32}, {256, 34 * 32}} {
		b := make([]byte, 4+32+int(wk[1])+4*32)
		r.Bytes(b)
		b[0], b[1], b[2], b[3] = 0, 0, 0, byte(r.Intn(16))
		f.XSigW[wk[0]] = b
	}
	f.Addr = append(f.Addr, f.Dil[0].GetAddress())
	var garbage [common.AddressSize]uint8
	r.Bytes(garbage[:])
	f.Addr = append(f.Addr, garbage)
	badLeg := f.Leg[0]
	badLeg[38] ^= 1
	f.Leg = append(f.Leg, badLeg)
	f.Mnem = append(f.Mnem, f.Dil[0].GetMnemonic(), f.Dil[1].GetMnemonic(),
		"absorb absorb absorb", "notaword absorb", "", f.Mnem[0]+" "+f.Mnem[0],
		// refused late: the decoder has already consumed valid words when it gives up
		"absorb notaword", lateBad(f.Mnem[0], 1), lateBad(f.Mnem[2], 7), f.Mnem[2]+" absorb")
	f.Desc = [][]byte{{0x01, 0x02, 0x00}, {0x12, 0x05, 0x00}, {0x0f, 0xff, 0x00}, {0x00, 0x00}, f.XPK[0][:3]}
	for i := 0; i < maxTasks; i++ {
		var s [48]byte
		r.Bytes(s[:])
		f.Priv = append(f.Priv, xmss.NewXMSSFromSeed(s, privHeight(i), xmss.HashFunction(i%3), common.SHA256_2X))
	}
	cnt := map[uintptr]int{}
	for _, k := range f.Priv {
		for _, p := range k.VerifReachable() {
			cnt[p]++
		}
	}
	f.keep = map[uintptr]bool{}
	for p, c := range cnt {
		if c > 1 {
			f.keep[p] = true
		}
	}
	if len(f.keep) > 0 && os.Getenv("CONSIM_DEBUG") != "" {
		fmt.Fprintf(os.Stderr, "consim: note: %d memory regions are shared between distinct private key objects; their per-run copies keep sharing them\n", len(f.keep))
	}
	return f
}

// pkBuf returns the calling task's own reusable public-key buffer.
func (f *Fix) pkBuf(h *held) *[dilithium.CryptoPublicKeyBytes]uint8 {
	if h == nil {
		return new([dilithium.CryptoPublicKeyBytes]uint8)
	}
	return &h.pk
}

// lateBad replaces the k-th word from the end of a mnemonic by a non-word.
func lateBad(m string, k int) string {
	ws := strings.Split(m, " ")
	if len(ws) > k {
		ws[len(ws)-k] = "notaword"
	}
	return strings.Join(ws, " ")
}

// sharedDigest covers every caller-owned object that tasks share.
func (f *Fix) sharedDigest() string {
	h := sha256.New()
	for _, m := range f.Msgs {
		h.Write(m)
	}
	for i := range f.DilPK {
		h.Write(f.DilPK[i][:])
	}
	for i := range f.DSig {
		h.Write(f.DSig[i].sig[:])
	}
	for _, s := range f.DSeal {
		h.Write(s)
	}
	for i := range f.XPK {
		h.Write(f.XPK[i][:])
	}
	for _, s := range f.XSig {
		h.Write(s.sig)
	}
	h.Write(f.XSigW[4])
	h.Write(f.XSigW[256])
	for _, d := range f.Desc {
		h.Write(d)
	}
	for _, m := range f.Mnem {
		h.Write([]byte(m))
	}
	for _, d := range append(append([]*dilithium.Dilithium(nil), f.Dil...), f.DilRun...) {
		pk, sk, sd := d.GetPK(), d.GetSK(), d.GetSeed()
		h.Write(pk[:])
		h.Write(sk[:])
		h.Write(sd[:])
	}
	return hex.EncodeToString(h.Sum(nil)[:12])
}

// Call is one library call of a task; A, B, C index into the fixtures.
type Call struct {
	K string `json:"k"`
	A int    `json:"a,omitempty"`
	B int    `json:"b,omitempty"`
}

var callKinds = []string{
	"xverify", "xverifyw", "xaddr", "xlegaddr", "xvalid", "xlegvalid", "xdesc", "xdescnew",
	"dverify", "dverifymany", "dverifybuf", "dopen", "dopenbig", "daddr", "dvalid", "dsign", "dseal", "dget", "dextract",
	"m2seed", "m2ext", "seed2m", "ext2m",
	"dnewseed", "dnewhex", "dnewmnem", "dnewrand",
	"psign", "pset", "pget", "xnew", "xnewext",
}

func digestOf(parts ...[]byte) string {
	h := sha256.New()
	for _, p := range parts {
		var l [4]byte
		l[0], l[1], l[2], l[3] = byte(len(p)>>24), byte(len(p)>>16), byte(len(p)>>8), byte(len(p))
		h.Write(l[:])
		h.Write(p)
	}
	return hex.EncodeToString(h.Sum(nil)[:12])
}

func bb(b bool) []byte {
	if b {
		return []byte{1}
	}
	return []byte{0}
}

// exec runs one call; the result is a digest of everything it returned, or of
// the panic it raised (explicit refusals are results too).
// held remembers reference-typed values a call returned (strings, slices), so
// that the harness can check after the run that nothing rewrote them later: a
// result that changes after it was returned is not "the result it returns when
// run alone".
type held struct {
	items []heldItem
	pk    [dilithium.CryptoPublicKeyBytes]uint8 // this task's reusable public-key buffer
}
type heldItem struct {
	call string
	s    string
	b    []byte
	sum  [32]byte
}

func (h *held) str(call, s string) []byte {
	if h != nil {
		h.items = append(h.items, heldItem{call: call, s: s, sum: sha256.Sum256([]byte(s))})
	}
	return []byte(s)
}
func (h *held) bytes(call string, b []byte) []byte {
	if h != nil && len(b) > 0 {
		h.items = append(h.items, heldItem{call: call, b: b, sum: sha256.Sum256(b)})
	}
	return b
}

// changed names the first held value whose content is no longer what was returned.
func (h *held) changed() string {
	for _, it := range h.items {
		var now [32]byte
		if it.b != nil {
			now = sha256.Sum256(it.b)
		} else {
			now = sha256.Sum256([]byte(it.s))
		}
		if now != it.sum {
			return it.call
		}
	}
	return ""
}

func (f *Fix) exec(c Call, priv *xmss.XMSS, h *held) (res string) {
	defer func() {
		if r := recover(); r != nil {
			kind := "panic"
			if _, ok := r.(runtime.Error); ok {
				kind = "runtime-panic"
			}
			if msg, ok := r.(string); ok && strings.HasPrefix(msg, "simsched:") && msg != simsched.StepBound && msg != simsched.Deadlock {
				panic(r) // a scheduler limitation is a harness fault (exit 2), never a result
			}
			res = fmt.Sprintf("%s:%T:%v", kind, r, r)
			if len(res) > 200 {
				res = res[:200]
			}
		}
	}()
	a, b := c.A, c.B
	switch c.K {
	case "xverify":
		s := f.XSig[a%len(f.XSig)]
		return digestOf(bb(xmss.Verify(f.Msgs[s.msg], s.sig, f.XPK[s.pk])))
	case "xverifyw":
		s := f.XSig[a%len(f.XSig)]
		// mostly the standard parameter; sometimes another Winternitz parameter
		// (the signature then has the wrong size: the refusal is the result)
		w := []uint32{16, 16, 16, 4, 256}[b%5]
		sig := s.sig
		if ws, ok := f.XSigW[w]; ok && b%2 == 0 { // well-sized input for that parameter
			sig = ws
		}
		return digestOf(bb(xmss.VerifyWithCustomWOTSParamW(f.Msgs[s.msg], sig, f.XPK[s.pk], w)))
	case "xaddr":
		ad := xmss.GetXMSSAddressFromPK(f.XPK[a%len(f.XPK)])
		return digestOf(ad[:])
	case "xlegaddr":
		ad := xmss.GetLegacyXMSSAddressFromPK(f.XPK[a%len(f.XPK)])
		return digestOf(ad[:])
	case "xvalid":
		return digestOf(bb(xmss.IsValidXMSSAddress(f.Addr[a%len(f.Addr)])))
	case "xlegvalid":
		return digestOf(bb(xmss.IsValidLegacyXMSSAddress(f.Leg[a%len(f.Leg)])))
	case "xdesc":
		d := xmss.NewQRLDescriptorFromBytes(f.Desc[a%len(f.Desc)])
		by := d.GetBytes()
		return digestOf(by[:], []byte{d.GetHeight(), byte(d.GetHashFunction()), byte(d.GetSignatureType()), byte(d.GetAddrFormatType())})
	case "xdescnew":
		// mostly canonical field values, sometimes odd heights or values beyond a nibble
		ht, sg, af := uint8(2*(a%16)), common.XMSSSig, common.SHA256_2X
		if b%4 == 3 {
			ht = uint8(a % 40)
		}
		if b%8 == 7 {
			sg, af = common.SignatureType(a%20), common.AddrFormatType(b%20)
		}
		d := xmss.NewQRLDescriptor(ht, xmss.HashFunction(b%3), sg, af)
		by := d.GetBytes()
		e := xmss.NewQRLDescriptorFromExtendedSeed(f.Ext[a%len(f.Ext)])
		ey := e.GetBytes()
		return digestOf(by[:], ey[:])
	case "dverify":
		s := &f.DSig[a%len(f.DSig)]
		return digestOf(bb(dilithium.Verify(f.Msgs[s.msg], s.sig, &f.DilPK[s.key])))
	case "dverifybuf":
		// a verifier that keeps ONE public-key buffer and overwrites it in place for every signer
		s := &f.DSig[a%len(f.DSig)]
		buf := f.pkBuf(h)
		*buf = f.DilPK[s.key]
		return digestOf(bb(dilithium.Verify(f.Msgs[s.msg], s.sig, buf)))
	case "dverifymany":
		// a verifier working through a batch of signatures from many signers
		var verdicts []byte
		for j := 0; j < 7; j++ {
			s := &f.DSig[(a+j*(1+b%5))%len(f.DSig)]
			verdicts = append(verdicts, bb(dilithium.Verify(f.Msgs[s.msg], s.sig, &f.DilPK[s.key]))...)
		}
		return digestOf(verdicts)
	case "dopen":
		return digestOf(h.bytes(c.K, dilithium.Open(f.DSeal[a%len(f.DSeal)], &f.DilPK[b%len(f.DilPK)])))
	case "dopenbig":
		// every opened payload stays held by the caller while the next ones are
		// opened: together more than 1 MiB of returned payloads alive at once
		var parts [][]byte
		for j := range f.DBig {
			k := (a + j) % len(f.DBig)
			parts = append(parts, h.bytes(c.K, dilithium.Open(f.DBig[k], &f.DilPK[k%2])))
		}
		return digestOf(parts...)
	case "daddr":
		ad := dilithium.GetDilithiumAddressFromPK(f.DilPK[a%len(f.DilPK)])
		return digestOf(ad[:])
	case "dvalid":
		return digestOf(bb(dilithium.IsValidDilithiumAddress(f.Addr[a%len(f.Addr)])))
	case "dsign":
		s, err := f.dil(a).Sign(f.Msgs[b%len(f.Msgs)])
		return digestOf(s[:], []byte(fmt.Sprint(err)))
	case "dseal":
		s, err := f.dil(a).Seal(f.Msgs[b%len(f.Msgs)])
		return digestOf(h.bytes(c.K, s), []byte(fmt.Sprint(err)))
	case "dget":
		d := f.dil(a)
		pk, sk, sd, ad := d.GetPK(), d.GetSK(), d.GetSeed(), d.GetAddress()
		return digestOf(pk[:], sk[:], sd[:], ad[:], h.str(c.K, d.GetMnemonic()), h.str(c.K, d.GetHexSeed()))
	case "dextract":
		sm := f.DSeal[(a%(len(f.DSeal)-1))]
		return digestOf(dilithium.ExtractMessage(sm), dilithium.ExtractSignature(sm))
	case "m2seed":
		s := misc.MnemonicToSeedBin(f.Mnem[a%len(f.Mnem)])
		return digestOf(s[:])
	case "m2ext":
		s := misc.MnemonicToExtendedSeedBin(f.Mnem[a%len(f.Mnem)])
		return digestOf(s[:])
	case "seed2m":
		return digestOf(h.str(c.K, misc.SeedBinToMnemonic(f.Seeds[a%len(f.Seeds)])))
	case "ext2m":
		return digestOf(h.str(c.K, misc.ExtendedSeedBinToMnemonic(f.Ext[a%len(f.Ext)])))
	case "dnewseed":
		d, err := dilithium.NewDilithiumFromSeed(f.Seeds[a%len(f.Seeds)])
		return dilDigest(d, err)
	case "dnewhex":
		d, err := dilithium.NewDilithiumFromHexSeed(hex.EncodeToString(f.Seeds[a%len(f.Seeds)][:]))
		return dilDigest(d, err)
	case "dnewmnem":
		d, err := dilithium.NewDilithiumFromMnemonic(f.Mnem[a%len(f.Mnem)])
		return dilDigest(d, err)
	case "dnewrand":
		// entropy is the harness's per-task deterministic stream (see entropy.go)
		d, err := dilithium.New()
		return dilDigest(d, err)
	case "psign":
		s, err := priv.Sign(f.Msgs[a%len(f.Msgs)])
		return digestOf(h.bytes(c.K, s), []byte(fmt.Sprint(err)))
	case "pset":
		priv.SetIndex(uint32(a))
		return digestOf([]byte{byte(priv.GetIndex())})
	case "pget":
		pk, ad, sd, ex := priv.GetPK(), priv.GetAddress(), priv.GetSeed(), priv.GetExtendedSeed()
		return digestOf(pk[:], ad[:], sd[:], ex[:], h.str(c.K, priv.GetMnemonic()), h.str(c.K, priv.GetHexSeed()), []byte{byte(priv.GetIndex()), priv.GetHeight()})
	case "xnew":
		k := xmss.NewXMSSFromSeed(f.Seeds[a%len(f.Seeds)], 4, xmss.HashFunction(b%3), common.SHA256_2X)
		pk := k.GetPK()
		return digestOf(pk[:])
	case "xnewext":
		k := xmss.NewXMSSFromExtendedSeed(f.Ext[a%len(f.Ext)])
		pk := k.GetPK()
		s, err := k.Sign(f.Msgs[b%len(f.Msgs)])
		return digestOf(pk[:], h.bytes(c.K, s), h.str(c.K, k.GetMnemonic()), []byte(fmt.Sprint(err)))
	}
	panic("consim: unknown call kind " + c.K)
}

// dil picks a shared Dilithium key: a warm one (already used while building
// the fixtures) or one created fresh for this run.
func (f *Fix) dil(a int) *dilithium.Dilithium {
	all := len(f.Dil) + len(f.DilRun)
	i := a % all
	if i < len(f.Dil) {
		return f.Dil[i]
	}
	return f.DilRun[i-len(f.Dil)]
}

func dilDigest(d *dilithium.Dilithium, err error) string {
	if err != nil || d == nil {
		return digestOf([]byte(fmt.Sprint(err)))
	}
	pk, sk, sd := d.GetPK(), d.GetSK(), d.GetSeed()
	return digestOf(pk[:], sk[:], sd[:])
}
