//go:build consim

package main

// Cold-start episodes. A lazily initialised package-level cache is created by
// whichever call comes first in a process; in the ordinary (warm) episodes that
// is always fixture building or the sequential baseline, so the window in which
// another task can observe half-built state never opens for the result oracle.
// A cold episode runs in a fresh process that has made no library call at all:
// fixtures are loaded as plain data, the scheduled run comes FIRST, and its
// results are compared with a reference computed by a different fresh process
// that ran every call alone ("the result it returns when run alone", literally).

import (
	"crypto/rand"
	"encoding/json"
	"fmt"
	"os"
	"runtime"

	"github.com/theQRL/go-qrllib/simsched"

	"verif/core"
)

// FixData is the data-only part of the fixtures (no key objects).
type FixData struct {
	Seeds [][]byte `json:"seeds"`
	Msgs  [][]byte `json:"msgs"`
	DilPK [][]byte `json:"dilpk"`
	DSig  []struct {
		Msg, Key int
		Sig      []byte
	} `json:"dsig"`
	DSeal [][]byte `json:"dseal"`
	XPK   [][]byte `json:"xpk"`
	XSig  []struct {
		Msg, PK int
		Sig     []byte
	} `json:"xsig"`
	Addr [][]byte `json:"addr"`
	Leg  [][]byte `json:"leg"`
	Mnem []string `json:"mnem"`
	Ext  [][]byte `json:"ext"`
	Desc [][]byte `json:"desc"`
	W4   []byte   `json:"xsig_w4"`
	W256 []byte   `json:"xsig_w256"`
}

func (f *Fix) data() *FixData {
	d := &FixData{Msgs: f.Msgs, DSeal: f.DSeal, Mnem: f.Mnem, Desc: f.Desc, W4: f.XSigW[4], W256: f.XSigW[256]}
	for i := range f.Seeds {
		d.Seeds = append(d.Seeds, f.Seeds[i][:])
	}
	for i := range f.DilPK {
		d.DilPK = append(d.DilPK, f.DilPK[i][:])
	}
	for i := range f.DSig {
		d.DSig = append(d.DSig, struct {
			Msg, Key int
			Sig      []byte
		}{f.DSig[i].msg, f.DSig[i].key, f.DSig[i].sig[:]})
	}
	for i := range f.XPK {
		d.XPK = append(d.XPK, f.XPK[i][:])
	}
	for i := range f.XSig {
		d.XSig = append(d.XSig, struct {
			Msg, PK int
			Sig     []byte
		}{f.XSig[i].msg, f.XSig[i].pk, f.XSig[i].sig})
	}
	for i := range f.Addr {
		d.Addr = append(d.Addr, f.Addr[i][:])
	}
	for i := range f.Leg {
		d.Leg = append(d.Leg, f.Leg[i][:])
	}
	for i := range f.Ext {
		d.Ext = append(d.Ext, f.Ext[i][:])
	}
	return d
}

func fixFromData(d *FixData) *Fix {
	f := &Fix{Msgs: d.Msgs, DSeal: d.DSeal, Mnem: d.Mnem, Desc: d.Desc, XSigW: map[uint32][]byte{4: d.W4, 256: d.W256}}
	f.Seeds = make([][48]byte, len(d.Seeds))
	for i := range d.Seeds {
		copy(f.Seeds[i][:], d.Seeds[i])
	}
	f.DilPK = make([][len(f.DilPK[0])]uint8, len(d.DilPK))
	for i := range d.DilPK {
		copy(f.DilPK[i][:], d.DilPK[i])
	}
	f.DSig = make([]dsig, len(d.DSig))
	for i := range d.DSig {
		f.DSig[i].msg, f.DSig[i].key = d.DSig[i].Msg, d.DSig[i].Key
		copy(f.DSig[i].sig[:], d.DSig[i].Sig)
	}
	f.XPK = make([][len(f.XPK[0])]uint8, len(d.XPK))
	for i := range d.XPK {
		copy(f.XPK[i][:], d.XPK[i])
	}
	f.XSig = make([]xsig, len(d.XSig))
	for i := range d.XSig {
		f.XSig[i] = xsig{d.XSig[i].Msg, d.XSig[i].PK, d.XSig[i].Sig}
	}
	f.Addr = make([][len(f.Addr[0])]uint8, len(d.Addr))
	for i := range d.Addr {
		copy(f.Addr[i][:], d.Addr[i])
	}
	f.Leg = make([][len(f.Leg[0])]uint8, len(d.Leg))
	for i := range d.Leg {
		copy(f.Leg[i][:], d.Leg[i])
	}
	f.Ext = make([][len(f.Ext[0])]uint8, len(d.Ext))
	for i := range d.Ext {
		copy(f.Ext[i][:], d.Ext[i])
	}
	return f
}

// coldKinds need neither a shared Dilithium key object nor a private XMSS key.
var coldKinds = []string{
	"xverify", "xverifyw", "xaddr", "xlegaddr", "xvalid", "xlegvalid", "xdesc", "xdescnew",
	"dverify", "dverifymany", "dverifybuf", "dopen", "daddr", "dvalid", "dextract",
	"m2seed", "m2ext", "seed2m", "ext2m",
	"dnewseed", "dnewhex", "dnewmnem", "dnewrand", "xnew", "xnewext",
}

const coldOffset = 2000000

func genColdEpisode(seed uint64, e int) *Episode {
	r := core.Derive(seed, "consim", "cold-episode", e)
	ep := &Episode{FixSeed: core.Derive(seed, "consim", "cold-fix").Uint64(), EntSeed: r.Uint64()}
	if r.Chance(0.35) {
		// focused: a few goroutines all in the SAME function on different inputs,
		// one of them coming back to the first input later. Few statements are
		// executed, so change points aimed at executed statements cover them well,
		// and a stale or torn entry left behind is looked up again within the run.
		k := coldKinds[r.Intn(len(coldKinds))]
		for k == "xnew" || k == "xnewext" {
			k = coldKinds[r.Intn(len(coldKinds))]
		}
		a0, a1, a2 := r.Intn(64), r.Intn(64), r.Intn(64)
		b := r.Intn(64)
		ep.Tasks = [][]Call{
			{{K: k, A: a0, B: b}, {K: k, A: a0, B: b}},
			{{K: k, A: a1, B: b}},
			{{K: k, A: a2, B: b}, {K: k, A: a0, B: b}},
		}
		if r.Chance(0.5) {
			ep.Tasks = ep.Tasks[:2]
			ep.Tasks[1] = append(ep.Tasks[1], Call{K: k, A: a0, B: b})
		}
		return ep
	}
	n := r.Range(2, 5)
	var enabled []string
	for _, k := range coldKinds {
		if r.Chance(0.4) {
			enabled = append(enabled, k)
		}
	}
	if len(enabled) < 2 {
		enabled = coldKinds
	}
	// often all tasks start with the same kind of call: first use of the same
	// lazily built state from several goroutines at once
	same := r.Chance(0.6)
	first := enabled[r.Intn(len(enabled))]
	for t := 0; t < n; t++ {
		var calls []Call
		nc := r.Range(1, 4)
		for len(calls) < nc {
			k := enabled[r.Intn(len(enabled))]
			if same && len(calls) == 0 {
				k = first
			}
			if (k == "xnew" || k == "xnewext") && !r.Chance(0.15) {
				continue
			}
			calls = append(calls, Call{K: k, A: r.Intn(64), B: r.Intn(64)})
		}
		ep.Tasks = append(ep.Tasks, calls)
	}
	return ep
}

// genColdPlan needs no occurrence counts (nothing has run yet in the process).
func genColdPlan(r *core.Rand, ep *Episode, st *Sites) *simsched.Plan {
	n := len(ep.Tasks)
	p := &simsched.Plan{Prio: r.Perm(n)}
	for i := range p.Prio {
		p.Prio[i]++
	}
	for i := 0; i < 12; i++ {
		p.DynPrio = append(p.DynPrio, r.Range(-2, n+2))
	}
	switch r.Pick([]int{5, 2, 2}) {
	case 0: // change points at the FIRST occurrences of d statements, for every task
		p.Strategy = "first-occurrence"
		var gw []int
		for s := range st.Sites {
			if c := st.Sites[s].Class; c == "G" || c == "W" {
				gw = append(gw, s)
			}
		}
		d := []int{1, 2, 4, 8}[r.Intn(4)]
		for i := 0; i < d; i++ {
			s := 1 + r.Intn(len(st.Sites)-1)
			if len(gw) > 0 && r.Chance(0.6) {
				s = gw[r.Intn(len(gw))]
			}
			occ := uint32(1 + r.Intn(3))
			only := -1
			if r.Chance(0.5) { // one task only: it is overtaken there by the others, whole calls at a time
				only = r.Intn(n)
			}
			for t := 0; t < n; t++ {
				if only < 0 || only == t {
					p.Points = append(p.Points, simsched.ChangePoint{Task: t, Site: s, Occ: occ})
				}
			}
		}
	case 1:
		p.Strategy = "quantum"
		p.Quantum = []uint64{1, 2, 3, 5, 10, 50, 1000}[r.Intn(7)]
	case 2: // early ordinals, log-uniform
		p.Strategy = "ordinal-pct"
		d := []int{1, 2, 3}[r.Intn(3)]
		for i := 0; i < d; i++ {
			mag := uint64(1) << uint(r.Intn(22))
			p.Points = append(p.Points, simsched.ChangePoint{Ordinal: 1 + r.Uint64()%mag})
		}
	}
	return p
}

type coldOut struct {
	Results  [][]string     `json:"results"`
	Counts   [][][2]uint32  `json:"counts,omitempty"` // reference run: per task (site, occurrences) of executed statements
	Alone    [][]string     `json:"alone,omitempty"` // per call: result in a process that ran only that call ("" = not taken)
	Plan     *simsched.Plan `json:"plan,omitempty"`
	Stats    simsched.Stats `json:"stats"`
	SiteHit  []int          `json:"site_hit,omitempty"`
	ByClass  [4]uint64      `json:"by_class"`
	Viol     []Violation    `json:"violations,omitempty"`
	RunCount int            `json:"runs"`
}

func loadFixData(path string) *Fix {
	b, err := os.ReadFile(path)
	if err != nil {
		fail2("fixture data: %v", err)
	}
	d := &FixData{}
	if err := json.Unmarshal(b, d); err != nil {
		fail2("fixture data: %v", err)
	}
	return fixFromData(d)
}

// coldRef: a fresh process that runs every call alone, in task order.
func coldRef(epJSON, fixPath, sitesPath string) {
	runtime.GOMAXPROCS(1)
	rand.Reader = entropy
	var ep Episode
	if err := json.Unmarshal([]byte(epJSON), &ep); err != nil {
		fail2("episode: %v", err)
	}
	st := loadSites(sitesPath)
	f := loadFixData(fixPath)
	n := len(ep.Tasks)
	order := make([]int, n)
	for i := range order {
		order[i] = i
	}
	o := runOnce(f, &ep, seqPlan(n, order), len(st.Sites), true)
	// which statements each task executed, how often: lets the parent aim the
	// schedule of the cold run at statements that will actually be reached
	var sparse [][][2]uint32
	for _, row := range o.Counts {
		var r [][2]uint32
		for s, c := range row {
			if c > 0 {
				r = append(r, [2]uint32{uint32(s), c})
			}
		}
		sparse = append(sparse, r)
	}
	json.NewEncoder(os.Stdout).Encode(&coldOut{Results: o.Results, Stats: o.Stats, RunCount: 1, Counts: sparse})
}

// runOnceCold: fixtures loaded as data carry no key objects (f.Priv, f.Dil are nil).
func runOnceCold(f *Fix, ep *Episode, plan *simsched.Plan, ns int) *runOut {
	return runOnce(f, ep, plan, ns, false)
}

// coldRun: scheduled run first, in a process that has made no library call.
func coldRun(epJSON, planJSON, fixPath, sitesPath, refJSON string) {
	runtime.GOMAXPROCS(1)
	rand.Reader = entropy
	var ep Episode
	var plan simsched.Plan
	var ref coldOut
	if json.Unmarshal([]byte(epJSON), &ep) != nil || json.Unmarshal([]byte(planJSON), &plan) != nil || json.Unmarshal([]byte(refJSON), &ref) != nil {
		fail2("cold run: bad arguments")
	}
	st := loadSites(sitesPath)
	f := loadFixData(fixPath)
	shared0 := f.sharedDigest()
	n, ns := len(ep.Tasks), len(st.Sites)
	out := &coldOut{Plan: &plan}
	stepLimit = 16*ref.Stats.Yields + 5e6
	o := runOnceCold(f, &ep, &plan, ns)
	stepLimit = 6e9
	out.Stats, out.Results, out.RunCount = o.Stats, o.Results, 1
	for s, c := range o.SiteHit {
		if c > 0 {
			out.SiteHit = append(out.SiteHit, s)
			out.ByClass[classIdx(st.Sites[s].Class)] += uint64(c)
		}
	}
	// the sequential reference process against each call truly alone
	for t := range ref.Alone {
		for i := range ref.Alone[t] {
			if a := ref.Alone[t][i]; a != "" && a != ref.Results[t][i] && len(out.Viol) == 0 {
				out.Viol = append(out.Viol, Violation{Property: "C15", Oracle: "history-dependent-result", Where: fmt.Sprintf("task%d/call%d", t, i), Detail: fmt.Sprintf("%s: alone in a fresh process %s, after other calls in one process %s", ep.Tasks[t][i].K, short(a), short(ref.Results[t][i])), Signature: "history-dependent-result:" + ep.Tasks[t][i].K})
			}
		}
	}
	expect := ref.Results
	if len(ref.Alone) == len(ref.Results) {
		expect = make([][]string, len(ref.Results))
		for t := range ref.Results {
			expect[t] = append([]string(nil), ref.Results[t]...)
			for i, a := range ref.Alone[t] {
				if a != "" {
					expect[t][i] = a
				}
			}
		}
	}
	if w, d := diffResults(expect, o.Results, &ep); w != "" && len(out.Viol) == 0 {
		t, i := 0, 0
		fmt.Sscanf(w, "task%d/call%d", &t, &i)
		out.Viol = append(out.Viol, Violation{Property: "C15", Oracle: "cold-result-differs-from-alone", Where: w, Detail: "first use in a fresh process under a schedule vs. the same call run alone in a fresh process: " + d, Signature: "cold-result-differs-from-alone:" + ep.Tasks[t][i].K})
	}
	if o.Shared != shared0 {
		out.Viol = append(out.Viol, Violation{Property: "C15", Oracle: "shared-input-modified", Where: "cold scheduled run", Detail: "a caller-owned shared input changed", Signature: "shared-input-modified:cold"})
	}
	if o.Changed != "" {
		out.Viol = append(out.Viol, Violation{Property: "C15", Oracle: "returned-value-rewritten", Where: "cold scheduled run", Detail: "a string/slice returned by " + o.Changed + " was rewritten after it was returned", Signature: "returned-value-rewritten:" + o.Changed})
	}
	// afterwards the same process must still give the stand-alone answers
	order := make([]int, n)
	for i := range order {
		order[i] = i
	}
	a := runOnceCold(f, &ep, seqPlan(n, order), ns)
	out.RunCount++
	if w, d := diffResults(ref.Results, a.Results, &ep); w != "" && len(out.Viol) == 0 {
		t, i := 0, 0
		fmt.Sscanf(w, "task%d/call%d", &t, &i)
		out.Viol = append(out.Viol, Violation{Property: "C15", Oracle: "history-dependent-result", Where: w, Detail: "after a scheduled first use, sequential calls in the same process disagree with a fresh process: " + d, Signature: "history-dependent-result:" + ep.Tasks[t][i].K})
	}
	json.NewEncoder(os.Stdout).Encode(out)
}
