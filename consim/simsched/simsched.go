// Package simsched is the deterministic scheduler of the caller-goroutine
// simulator. It is copied into the instrumented scratch copy of the library
// (as github.com/theQRL/go-qrllib/simsched); the instrumenter inserts a call
// to Y before every library statement.
//
// Tasks are real goroutines, but exactly one is released at a time: the one
// whose id equals `turn`. All scheduler state is plain memory touched only
// inside //go:norace functions, and the hand-off uses no channel, mutex or
// atomic - so the race detector sees no happens-before edge between tasks and
// still treats them as concurrent, while the interleaving is fully decided by
// the pre-computed plan (PCT-style priorities with change points).
package simsched

import (
	"runtime"
	"sync"
)

const MaxTasks = 264

// ChangePoint lowers the running task's priority below all others when hit.
type ChangePoint struct {
	// either Ordinal > 0: the global yield ordinal at which it fires,
	// or (Task, Site, Occ): the Occ-th time task Task reaches site Site.
	Ordinal uint64 `json:"ordinal,omitempty"`
	Task    int    `json:"task"`
	Site    int    `json:"site"`
	Occ     uint32 `json:"occ,omitempty"`
}

// Plan fully decides one interleaving.
type Plan struct {
	Strategy string        `json:"strategy"`
	Prio     []int         `json:"prio"`               // initial priority per task (higher runs first)
	Points   []ChangePoint `json:"points,omitempty"`   // change points
	Quantum  uint64        `json:"quantum,omitempty"`  // >0: additionally a change point every Quantum yields
	DynPrio  []int         `json:"dyn_prio,omitempty"` // priorities of goroutines the library itself starts, in order of creation
}

// Switch is one recorded hand-off.
type Switch struct {
	Ord      uint64
	From, To int
	Site     int
	MidCall  bool // the resumed task was itself parked inside a library call
}

var (
	active   bool
	counting bool // count per-(task,site) occurrences
	nsites   int
	alive    [MaxTasks]bool // slot holds a registered goroutine
	waiting  [MaxTasks]bool // last thing the task did was to fail a wait (lock, channel, WaitGroup)
	idle     int            // consecutive failed re-checks by waiting tasks, no progress in between
	quiet    bool           // every unfinished task waits and none can proceed
	deadlock bool           // ... and a harness task is among them: it is made to panic
	dynBase  = 8            // library-started goroutines use slots dynBase.., harness tasks 0..dynBase-1
	hi       = 8            // slots [0,hi) are in use or were in use: bound of all scans
	turn     int
	ord      uint64
	prio     [MaxTasks]int
	lowest   int
	done     [MaxTasks]bool
	inY      [MaxTasks]bool // parked inside Y (mid-call) rather than at start
	counts   [][]uint32     // [task][site]
	trig     [][]uint32     // [task][site] -> next occurrence that fires (0 = none)
	trigMore [][][]uint32   // remaining occurrences per (task,site), ascending
	ordPts   []uint64
	ordNext  int
	quantum  uint64
	qLeft    uint64
	switches []Switch
	nSwitch  uint64
	trHash   uint64
	maxRec   int
	siteHit  []uint32 // per site: number of switches taken there
	nSpin    uint64
	limit    uint64 // logical step bound of the run (0 = none)
	dynPrio  []int  // priorities for library-started goroutines
	dynNext  int
	nTop     int           // number of top-level (harness) tasks
	onceTab  [64]onceState // no map: runtime map operations report to the race detector even from norace code
	onceN    int
)

type onceState struct {
	o             *sync.Once
	running, done bool
}

// Deadlock is the panic value raised in a harness task when every unfinished
// task is waiting and none can proceed under this schedule.
const Deadlock = "simsched: all tasks are waiting (deadlock under this schedule)"

// Setup prepares a run of n tasks over a site table of size ns. Goroutines the
// library started in an earlier run and that are still alive (a worker pool
// parked on its job channel) stay registered and take part in this run too.
//
//go:norace
func Setup(n, ns int, p *Plan, count bool, record int) {
	if n > dynBase {
		panic("simsched: too many tasks")
	}
	nsites = ns
	nTop = n
	idle, quiet, deadlock = 0, false, false
	dynPrio, dynNext = nil, 0
	if p != nil {
		dynPrio = p.DynPrio
	}
	counting = count
	ord, nSwitch, nSpin, trHash = 0, 0, 0, 1469598103934665603
	if cap(switches) < record {
		switches = make([]Switch, 0, record)
	}
	switches = switches[:0]
	maxRec = record
	if len(siteHit) != ns {
		siteHit = make([]uint32, ns)
	}
	if len(counts) != MaxTasks || len(counts[0]) != ns {
		counts = make([][]uint32, MaxTasks)
		trig = make([][]uint32, MaxTasks)
		trigMore = make([][][]uint32, MaxTasks)
		for i := range counts {
			counts[i] = make([]uint32, ns)
			trig[i] = make([]uint32, ns)
			trigMore[i] = make([][]uint32, ns)
		}
	}
	for i := 0; i < MaxTasks; i++ {
		for j := range counts[i] {
			counts[i][j] = 0
			trig[i][j] = 0
			trigMore[i][j] = nil
		}
		if i < dynBase {
			alive[i] = i < n
			done[i], inY[i], waiting[i] = false, false, false
		} else if alive[i] && done[i] {
			alive[i] = false
		}
		prio[i] = 0
	}
	ordPts = ordPts[:0]
	ordNext = 0
	quantum, qLeft = 0, 0
	lowest = 0
	limit = 0
	onceN = 0
	if p != nil {
		for i := 0; i < n && i < len(p.Prio); i++ {
			prio[i] = p.Prio[i]
		}
		for _, c := range p.Points {
			if c.Ordinal > 0 {
				ordPts = append(ordPts, c.Ordinal)
				continue
			}
			if c.Task < 0 || c.Task >= n || c.Site < 0 || c.Site >= ns || c.Occ == 0 {
				continue
			}
			insertOcc(c.Task, c.Site, c.Occ)
		}
		sortU64(ordPts)
		quantum, qLeft = p.Quantum, p.Quantum
	}
	hi = dynBase
	for i := dynBase; i < MaxTasks; i++ {
		if alive[i] {
			hi = i + 1
		}
	}
	for i, k := dynBase, 0; i < MaxTasks; i++ { // surviving library goroutines
		if alive[i] {
			if k < len(dynPrio) {
				prio[i] = dynPrio[k]
			}
			k++
		}
	}
	for i := 0; i < MaxTasks; i++ {
		if alive[i] && prio[i] < lowest {
			lowest = prio[i]
		}
	}
	turn = pickNext()
	active = true
}

//go:norace
func insertOcc(t, s int, occ uint32) {
	l := append(trigMore[t][s], occ)
	for i := len(l) - 1; i > 0 && l[i] < l[i-1]; i-- {
		l[i], l[i-1] = l[i-1], l[i]
	}
	trigMore[t][s] = l
	trig[t][s] = l[0]
}

//go:norace
func sortU64(a []uint64) {
	for i := 1; i < len(a); i++ {
		for j := i; j > 0 && a[j] < a[j-1]; j-- {
			a[j], a[j-1] = a[j-1], a[j]
		}
	}
}

// pickNext returns the unfinished task of highest priority (ties: lowest id)
// among those not known to be waiting; if all unfinished tasks are waiting,
// they are given the turn in rotation so that each re-checks its condition.
// -1 if no task is left.
//
//go:norace
func pickNext() int {
	best := -1
	for i := 0; i < hi; i++ {
		if !alive[i] || done[i] || waiting[i] {
			continue
		}
		if best < 0 || prio[i] > prio[best] {
			best = i
		}
	}
	if best >= 0 {
		return best
	}
	for d := 1; d <= hi; d++ {
		i := (turn + d + hi) % hi
		if turn < 0 {
			i = d - 1
		}
		if alive[i] && !done[i] {
			return i
		}
	}
	return -1
}

//go:norace
func unfinished() (n int, harness bool) {
	for i := 0; i < hi; i++ {
		if alive[i] && !done[i] {
			n++
			if i < dynBase {
				harness = true
			}
		}
	}
	return
}

// progress: the running task did something; nobody is presumed stuck any more.
//
//go:norace
func progress() {
	idle = 0
	if turn >= 0 {
		waiting[turn] = false
	}
}

// StepBound is the panic value raised in a task when the run exceeds its
// logical step bound: a call that does not return under this schedule.
const StepBound = "simsched: logical step bound exceeded (call does not return under this schedule)"

// SetLimit bounds the number of yields of the current run.
//
//go:norace
func SetLimit(n uint64) { limit = n }

// Stop ends a run.
//
//go:norace
func Stop() { active = false }

// Enter parks task id until it is its turn. Called first by each task goroutine.
//
//go:norace
func Enter(id int) {
	for turn != id {
		runtime.Gosched()
	}
}

//go:norace
func handOff(me, site int) {
	next := pickNext()
	if next == me || next < 0 {
		return
	}
	nSwitch++
	trHash = (trHash ^ (ord*31 + uint64(me)*7 + uint64(next))) * 1099511628211
	if len(switches) < maxRec {
		switches = append(switches, Switch{ord, me, next, site, inY[next]})
	}
	if site < len(siteHit) {
		siteHit[site]++
	}
	if inY[next] {
		midCall++
	}
	inY[me] = true
	turn = next
	for turn != me {
		runtime.Gosched()
	}
	inY[me] = false
}

var midCall uint64

// Y is the yield point inserted before every library statement.
//
//go:norace
func Y(site int) {
	if !active {
		return
	}
	ord++
	if limit > 0 && ord > limit {
		panic(StepBound)
	}
	progress()
	me := turn
	c := counts[me][site] + 1
	counts[me][site] = c
	fire := false
	if t := trig[me][site]; t != 0 && t == c {
		fire = true
		l := trigMore[me][site][1:]
		trigMore[me][site] = l
		if len(l) > 0 {
			trig[me][site] = l[0]
		} else {
			trig[me][site] = 0
		}
	}
	if ordNext < len(ordPts) && ordPts[ordNext] <= ord {
		fire = true
		for ordNext < len(ordPts) && ordPts[ordNext] <= ord {
			ordNext++
		}
	}
	if quantum > 0 {
		qLeft--
		if qLeft == 0 {
			qLeft = quantum
			fire = true
		}
	}
	if fire {
		lowest--
		prio[me] = lowest
		handOff(me, site)
	}
}

// Boundary is the yield point between two calls of a task (site 0).
//
//go:norace
func Boundary() { Y(0) }

// Finish marks the running task done and releases the next one.
//
//go:norace
func Finish(id int) {
	done[id] = true
	waiting[id] = false
	idle = 0
	for i := 0; i < hi; i++ { // whoever waited may have waited for this
		waiting[i] = false
	}
	turn = pickNext()
}

// Spin replaces a blocking Lock: it retries try() and lets other tasks run
// in between, so a task never blocks for real while it holds the turn.
func Spin(try func() bool) {
	for !try() {
		spinYield()
	}
	spinDone()
}

//go:norace
func spinYield() {
	if !active {
		runtime.Gosched()
		return
	}
	// a task that cannot proceed behaves like one that hit a change point (its
	// priority drops below all others) and is marked waiting
	ord++
	if limit > 0 && ord > limit {
		panic(StepBound)
	}
	me := turn
	lowest--
	prio[me] = lowest
	nSpin++
	waiting[me] = true
	idle++
	if n, harness := unfinished(); idle > n+1 {
		// every unfinished task re-checked its condition and none could move
		idle = 0
		if harness {
			deadlock = true
			for i := 0; i < dynBase; i++ {
				if alive[i] && !done[i] {
					if i == me {
						deadlock = false
						waiting[me] = false
						panic(Deadlock)
					}
					park(me, i)
					break
				}
			}
		} else {
			// only library goroutines are left and all of them wait: the run is over
			quiet = true
			park(me, -1)
		}
	} else {
		handOff(me, 0)
	}
	if deadlock && me < dynBase {
		deadlock = false
		waiting[me] = false
		panic(Deadlock)
	}
}

// park gives the turn to next and waits to get it back.
//
//go:norace
func park(me, next int) {
	inY[me] = true
	turn = next
	for turn != me {
		runtime.Gosched()
	}
	inY[me] = false
}

//go:norace
func spinDone() { progress() }

// OnceDo replaces once.Do(f): while another task is inside f, callers yield
// instead of blocking on the Once's internal mutex. The real Once still runs,
// so the race detector sees its true happens-before edges.
func OnceDo(o interface{}, f func()) {
	var once *sync.Once
	switch t := o.(type) {
	case *sync.Once:
		once = t
	case **sync.Once:
		once = *t
	default:
		panic("simsched.OnceDo: not a sync.Once")
	}
	if !isActive() {
		once.Do(f)
		return
	}
	for {
		st := onceGet(once)
		if st == 0 { // nobody inside: we run it
			once.Do(f)
			onceSet(once)
			return
		}
		if st == 2 { // completed
			once.Do(f)
			return
		}
		spinYield() // someone else is inside f
		spinDone()
	}
}

//go:norace
func isActive() bool { return active }

//go:norace
func onceFind(o *sync.Once) *onceState {
	for i := 0; i < onceN; i++ {
		if onceTab[i].o == o {
			return &onceTab[i]
		}
	}
	return nil
}

//go:norace
func onceGet(o *sync.Once) int {
	s := onceFind(o)
	if s == nil {
		if onceN == len(onceTab) {
			panic("simsched: too many sync.Once objects")
		}
		onceTab[onceN] = onceState{o: o, running: true}
		onceN++
		return 0
	}
	if s.done {
		return 2
	}
	return 1
}

//go:norace
func onceSet(o *sync.Once) {
	if s := onceFind(o); s != nil {
		s.running, s.done = false, true
	}
}

// Stats of the finished run.
type Stats struct {
	Yields   uint64
	Switches uint64
	MidCall  uint64
	Trace    uint64
	Spins    uint64
}

//go:norace
func GetStats() Stats { return Stats{ord, nSwitch, midCall, trHash, nSpin} }

// Current returns the id of the task that holds the turn.
//
//go:norace
func Current() int { return turn }

//go:norace
func ResetMidCall() { midCall = 0 }

// Counts returns a copy of the per-(task,site) occurrence counts.
//
//go:norace
func Counts() [][]uint32 {
	out := make([][]uint32, nTop)
	for i := range out {
		out[i] = append([]uint32(nil), counts[i]...)
	}
	return out
}

//go:norace
func Switches() []Switch { return append([]Switch(nil), switches...) }

// SiteHits returns (and clears) the per-site switch counts accumulated so far.
//
//go:norace
func SiteHits() []uint32 {
	out := append([]uint32(nil), siteHit...)
	for i := range siteHit {
		siteHit[i] = 0
	}
	return out
}

// ---------------------------------------------------------------- goroutines
// started by the library itself (`go f(x)` is rewritten to simsched.Go1(f, x)).
// Such a goroutine becomes one more task: it runs only while it holds the turn.

//go:norace
func newTask() int {
	id := -1
	for i := dynBase; i < MaxTasks; i++ {
		if !alive[i] || done[i] {
			id = i
			break
		}
	}
	if id < 0 {
		panic("simsched: too many live goroutines started by the library")
	}
	if id+1 > hi {
		hi = id + 1
	}
	alive[id], done[id], inY[id], waiting[id] = true, false, false, false
	if dynNext < len(dynPrio) {
		prio[id] = dynPrio[dynNext]
	} else {
		prio[id] = prio[turn] // same priority as the creator: runs when the creator waits or ends (ties: lower id first)
	}
	dynNext++
	dynStarted++
	progress()
	return id
}

var dynStarted uint64

//go:norace
func DynStarted() uint64 { return dynStarted }

func spawn(run func()) {
	if !isActive() {
		go run()
		return
	}
	id := newTask()
	go func() {
		Enter(id)
		run()
		Finish(id)
	}()
	afterSpawn()
}

//go:norace
func afterSpawn() {
	ord++
	handOff(turn, 0) // the new task runs first if the plan gave it the higher priority
}

func Go0(f func())                                    { spawn(f) }
func Go1[A any](f func(A), a A)                       { spawn(func() { f(a) }) }
func Go2[A, B any](f func(A, B), a A, b B)            { spawn(func() { f(a, b) }) }
func Go3[A, B, C any](f func(A, B, C), a A, b B, c C) { spawn(func() { f(a, b, c) }) }
func Go4[A, B, C, D any](f func(A, B, C, D), a A, b B, c C, d D) {
	spawn(func() { f(a, b, c, d) })
}
func Go5[A, B, C, D, E any](f func(A, B, C, D, E), a A, b B, c C, d D, e E) {
	spawn(func() { f(a, b, c, d, e) })
}
func Go6[A, B, C, D, E, F any](f func(A, B, C, D, E, F), a A, b B, c C, d D, e E, g F) {
	spawn(func() { f(a, b, c, d, e, g) })
}

// RunAlone runs f (library calls made by the harness itself: fixture building,
// per-run key construction) as the only harness task of a scheduled run on the
// calling goroutine. Whatever goroutines the library starts meanwhile become
// scheduler tasks like in any other run, and channels keep one meaning.
func RunAlone(ns int, f func()) {
	Setup(1, ns, nil, false, 0)
	defer func() {
		finishAlone()
		WaitAll()
		Stop()
	}()
	f()
}

//go:norace
func finishAlone() { Finish(0) }

// WaitAll lets the remaining library-started goroutines run until each has
// finished or all of them wait for work that will not come in this run (a
// parked worker pool). Called by the harness after its own tasks are done.
//
//go:norace
func WaitAll() {
	for active && !quiet {
		if n, _ := unfinished(); n == 0 {
			return
		}
		if turn < 0 {
			turn = pickNext()
		}
		runtime.Gosched()
	}
}

// Parked reports how many library-started goroutines are still alive (parked).
//
//go:norace
func Parked() int {
	n := 0
	for i := dynBase; i < MaxTasks; i++ {
		if alive[i] && !done[i] {
			n++
		}
	}
	return n
}

// WaitGroup replaces sync.WaitGroup in instrumented library code: Wait yields
// to other tasks instead of blocking for real; the real WaitGroup is still
// driven, so the race detector sees the true happens-before edges.
type WaitGroup struct {
	real sync.WaitGroup
	n    int
}

//go:norace
func (w *WaitGroup) cnt(d int) int { w.n += d; return w.n }

func (w *WaitGroup) Add(d int) { w.cnt(d); w.real.Add(d) }
func (w *WaitGroup) Done()     { w.cnt(-1); w.real.Done(); wakeAll() }
func (w *WaitGroup) Wait() {
	if isActive() {
		for w.cnt(0) > 0 {
			spinYield()
		}
		spinDone()
	}
	w.real.Wait()
}

// ---------------------------------------------------------------- channels
// WouldBlock is raised when a channel operation would block while no run is
// active (package initialisation, fixture building): there is no other task that
// could ever complete it.
const WouldBlock = "simsched: channel operation would block outside a scheduled run"

// Chan replaces `chan T` in instrumented library code (make, send, receive,
// close, range and select are rewritten). While a run is active it is a queue
// whose blocking operations yield to other tasks; its mutex is a real one, taken
// around every queue access, so that the race detector sees a happens-before
// edge from each send to the receives after it (an over-approximation that can
// hide a race, never invent one).
type Chan[T any] struct {
	mu      sync.Mutex
	buf     []T
	capa    int
	closed  bool
	sent    uint64
	taken   uint64
	waiters int // receivers currently waiting (an unbuffered send in a select needs one)
}

type integer interface {
	~int | ~int8 | ~int16 | ~int32 | ~int64 | ~uint | ~uint8 | ~uint16 | ~uint32 | ~uint64 | ~uintptr
}

func MakeChan[T any, N integer](n N) *Chan[T] {
	return &Chan[T]{capa: int(n)}
}

// wakeAll: something changed that a waiting task may have been waiting for.
//
//go:norace
func wakeAll() {
	idle = 0
	for i := 0; i < hi; i++ {
		waiting[i] = false
	}
}

func (c *Chan[T]) Send(v T) {
	if !isActive() { // same queue, but nobody to wait for
		c.mu.Lock()
		defer c.mu.Unlock()
		if c.closed {
			panic("send on closed channel")
		}
		if len(c.buf) >= c.capa {
			panic(WouldBlock)
		}
		c.buf = append(c.buf, v)
		c.sent++
		return
	}
	if c == nil {
		for {
			spinYield() // a send on a nil channel blocks forever
		}
	}
	for {
		c.mu.Lock()
		if c.closed {
			c.mu.Unlock()
			panic("send on closed channel")
		}
		if len(c.buf) < c.capa || (c.capa == 0 && len(c.buf) == 0) {
			c.buf = append(c.buf, v)
			c.sent++
			my := c.sent
			c.mu.Unlock()
			wakeAll()
			for c.capa == 0 { // unbuffered: wait until a receiver took it
				c.mu.Lock()
				done := c.taken >= my
				c.mu.Unlock()
				if done {
					break
				}
				spinYield()
			}
			spinDone()
			return
		}
		c.mu.Unlock()
		spinYield()
	}
}

func (c *Chan[T]) Recv2() (T, bool) {
	if !isActive() {
		c.mu.Lock()
		defer c.mu.Unlock()
		if len(c.buf) > 0 {
			v := c.buf[0]
			c.buf = c.buf[1:]
			c.taken++
			return v, true
		}
		if c.closed {
			var zero T
			return zero, false
		}
		panic(WouldBlock)
	}
	if c == nil {
		for {
			spinYield()
		}
	}
	registered := false
	for {
		c.mu.Lock()
		if len(c.buf) > 0 {
			v := c.buf[0]
			c.buf = c.buf[1:]
			c.taken++
			if registered {
				c.waiters--
			}
			c.mu.Unlock()
			wakeAll()
			return v, true
		}
		if c.closed {
			if registered {
				c.waiters--
			}
			c.mu.Unlock()
			spinDone()
			var zero T
			return zero, false
		}
		if !registered {
			c.waiters++
			registered = true
		}
		c.mu.Unlock()
		spinYield()
	}
}

func (c *Chan[T]) Recv() T { v, _ := c.Recv2(); return v }

func (c *Chan[T]) Close() {
	c.mu.Lock()
	if c.closed {
		c.mu.Unlock()
		panic("close of closed channel")
	}
	c.closed = true
	c.mu.Unlock()
	wakeAll()
}

// SelCase is one communication of a rewritten select statement.
type SelCase interface {
	ready() bool
	fire()
}

type sendCase[T any] struct {
	c *Chan[T]
	v T
}

// SendCase: `case c <- v`.
func SendCase[T any](c *Chan[T], v T) SelCase { return &sendCase[T]{c, v} }

func (s *sendCase[T]) ready() bool {
	if s.c == nil {
		return false
	}
	s.c.mu.Lock()
	defer s.c.mu.Unlock()
	if s.c.closed {
		return true // fire panics, as the real send would
	}
	if s.c.capa == 0 {
		return len(s.c.buf) == 0 && s.c.waiters > 0
	}
	return len(s.c.buf) < s.c.capa
}
func (s *sendCase[T]) fire() {
	s.c.mu.Lock()
	if s.c.closed {
		s.c.mu.Unlock()
		panic("send on closed channel")
	}
	s.c.buf = append(s.c.buf, s.v)
	s.c.sent++
	s.c.mu.Unlock()
}

// RecvC: `case v, ok := <-c`; V and OK hold what was received.
type RecvC[T any] struct {
	c  *Chan[T]
	V  T
	OK bool
}

func RecvCase[T any](c *Chan[T]) *RecvC[T] { return &RecvC[T]{c: c} }

func (r *RecvC[T]) ready() bool {
	if r.c == nil {
		return false
	}
	r.c.mu.Lock()
	defer r.c.mu.Unlock()
	return len(r.c.buf) > 0 || r.c.closed
}
func (r *RecvC[T]) fire() {
	r.c.mu.Lock()
	if len(r.c.buf) > 0 {
		r.V, r.OK = r.c.buf[0], true
		r.c.buf = r.c.buf[1:]
		r.c.taken++
	} else {
		var zero T
		r.V, r.OK = zero, false
	}
	r.c.mu.Unlock()
}

// Select replaces a select statement: it returns the index of the case that
// fired, or -1 for the default case. Which ready case is taken is decided by the
// yield ordinal, i.e. by the plan, never by a random source.
func Select(hasDefault bool, cases ...SelCase) int {
	for {
		n := len(cases)
		start := selStart(n)
		for d := 0; d < n; d++ {
			i := (start + d) % n
			if cases[i].ready() {
				cases[i].fire()
				wakeAll()
				return i
			}
		}
		if hasDefault {
			return -1
		}
		if !isActive() {
			panic(WouldBlock)
		}
		spinYield()
	}
}

//go:norace
func selStart(n int) int {
	if n == 0 {
		return 0
	}
	return int(ord % uint64(n))
}
